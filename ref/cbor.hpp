// Independent strict CBOR (RFC 8949) tree codec used as oracle and generator.
// Written from the RFC only; includes nothing from /repo/src.
#pragma once
#include <cstdint>
#include <string>
#include <vector>
#include <stdexcept>
#include <memory>

namespace ref {

struct CborError : std::runtime_error {
    size_t pos;
    CborError(const std::string& m, size_t p) : std::runtime_error(m + " @" + std::to_string(p)), pos(p) {}
};

// A node keeps its *encoding form* so that it can be re-emitted bit for bit or in another form.
struct Node {
    int major = 0;          // 0..7
    uint64_t arg = 0;       // head argument (value, length, count, tag number, simple value / float bits)
    int ai = 0;             // additional info actually used: 0..23 (immediate), 24..27, 31 (indefinite / break)
    bool indef = false;     // strings / arrays / maps of indefinite length
    std::string bytes;      // strings: payload (concatenation of all chunks)
    std::vector<Node> kids; // array elements; map k,v,k,v...; tag content (1); chunks of an indefinite string
    size_t begin = 0, end = 0;

    bool is_uint() const { return major == 0; }
    bool is_nint() const { return major == 1; }
    bool is_int() const { return major <= 1; }
    bool is_bstr() const { return major == 2; }
    bool is_tstr() const { return major == 3; }
    bool is_array() const { return major == 4; }
    bool is_map() const { return major == 5; }
    bool is_tag() const { return major == 6; }
    bool is_bool() const { return major == 7 && (ai == 20 || ai == 21); }
    size_t count() const { return major == 5 ? kids.size() / 2 : kids.size(); }
};

inline int min_ai(uint64_t v) {
    if (v <= 23) return (int)v;
    if (v <= 0xff) return 24;
    if (v <= 0xffff) return 25;
    if (v <= 0xffffffffULL) return 26;
    return 27;
}

class Decoder {
    const unsigned char* d; size_t n; size_t p = 0; int depth = 0; int max_depth;
public:
    Decoder(const std::string& s, int maxd = 100000) : d((const unsigned char*)s.data()), n(s.size()), max_depth(maxd) {}
    size_t pos() const { return p; }
    bool at_end() const { return p == n; }

    Node item() {
        if (p >= n) throw CborError("truncated: no head", p);
        if (++depth > max_depth) throw CborError("nesting too deep", p);
        Node x; x.begin = p;
        unsigned char h = d[p++];
        x.major = h >> 5; x.ai = h & 31;
        if (x.ai < 24) x.arg = x.ai;
        else if (x.ai <= 27) {
            int w = 1 << (x.ai - 24);
            if (n - p < (size_t)w) throw CborError("truncated head", p);
            uint64_t v = 0; for (int i = 0; i < w; i++) v = (v << 8) | d[p++];
            x.arg = v;
        } else if (x.ai < 31) throw CborError("reserved additional info", x.begin);
        else { // 31
            if (x.major == 0 || x.major == 1 || x.major == 6) throw CborError("ai 31 on int/tag", x.begin);
            if (x.major == 7) throw CborError("unexpected break", x.begin);
            x.indef = true;
        }
        switch (x.major) {
        case 0: case 1: break;
        case 2: case 3:
            if (!x.indef) {
                if (n - p < x.arg) throw CborError("truncated string", p);
                x.bytes.assign((const char*)d + p, (size_t)x.arg); p += (size_t)x.arg;
            } else {
                for (;;) {
                    if (p >= n) throw CborError("truncated indefinite string", p);
                    if (d[p] == 0xff) { p++; break; }
                    Node c = item();
                    if (c.major != x.major || c.indef) throw CborError("bad chunk", c.begin);
                    x.bytes += c.bytes; x.kids.push_back(std::move(c));
                }
            }
            break;
        case 4: case 5: {
            uint64_t per = x.major == 5 ? 2 : 1;
            if (!x.indef) {
                if (x.arg > (n - p)) throw CborError("count exceeds input", x.begin); // each item >= 1 byte
                for (uint64_t i = 0; i < x.arg * per; i++) x.kids.push_back(item());
            } else {
                for (;;) {
                    if (p >= n) throw CborError("truncated indefinite container", p);
                    if (d[p] == 0xff) { p++; break; }
                    x.kids.push_back(item());
                }
                if (x.major == 5 && (x.kids.size() & 1)) throw CborError("odd map content", x.begin);
            }
            break; }
        case 6: x.kids.push_back(item()); break;
        case 7:
            if (x.ai == 24 && x.arg < 32) throw CborError("invalid simple value encoding", x.begin);
            break;
        }
        x.end = p; depth--;
        return x;
    }
};

// Parse exactly one item covering the whole input.
inline Node parse_exact(const std::string& s) {
    Decoder dec(s);
    Node r = dec.item();
    if (!dec.at_end()) throw CborError("trailing bytes", dec.pos());
    return r;
}

inline void put_head(std::string& out, int major, int ai, uint64_t arg) {
    out.push_back((char)((major << 5) | ai));
    if (ai >= 24 && ai <= 27) {
        int w = 1 << (ai - 24);
        for (int i = w - 1; i >= 0; i--) out.push_back((char)((arg >> (8 * i)) & 0xff));
    }
}

// Emit a node honouring its form fields (ai, indef, chunks). For definite strings/containers the
// argument is recomputed from the content; ai is widened if it cannot hold the argument.
inline void emit(std::string& out, const Node& x) {
    auto fit = [](int ai, uint64_t v) { int m = min_ai(v); if (ai == 31) return m; if (ai < 24) return m; return ai < m ? m : ai; };
    switch (x.major) {
    case 0: case 1: put_head(out, x.major, fit(x.ai, x.arg), x.arg); break;
    case 2: case 3:
        if (x.indef) {
            out.push_back((char)((x.major << 5) | 31));
            for (auto& c : x.kids) emit(out, c);
            out.push_back((char)0xff);
        } else { put_head(out, x.major, fit(x.ai, x.bytes.size()), x.bytes.size()); out += x.bytes; }
        break;
    case 4: case 5:
        if (x.indef) out.push_back((char)((x.major << 5) | 31));
        else put_head(out, x.major, fit(x.ai, x.count()), x.count());
        for (auto& c : x.kids) emit(out, c);
        if (x.indef) out.push_back((char)0xff);
        break;
    case 6: put_head(out, 6, fit(x.ai, x.arg), x.arg); emit(out, x.kids.at(0)); break;
    case 7: put_head(out, 7, x.ai, x.arg); break;
    }
}
inline std::string encode(const Node& x) { std::string s; emit(s, x); return s; }

// ---- constructors (preferred form) ----
inline Node mk_uint(uint64_t v) { Node x; x.major = 0; x.arg = v; x.ai = min_ai(v); return x; }
inline Node mk_nint(uint64_t n) { Node x; x.major = 1; x.arg = n; x.ai = min_ai(n); return x; } // value -1-n
inline Node mk_int(int64_t v) { return v >= 0 ? mk_uint((uint64_t)v) : mk_nint(~(uint64_t)v); }
inline Node mk_bstr(const std::string& s) { Node x; x.major = 2; x.bytes = s; x.arg = s.size(); x.ai = min_ai(s.size()); return x; }
inline Node mk_tstr(const std::string& s) { Node x = mk_bstr(s); x.major = 3; return x; }
inline Node mk_array(std::vector<Node> k = {}) { Node x; x.major = 4; x.kids = std::move(k); x.arg = x.kids.size(); x.ai = min_ai(x.arg); return x; }
inline Node mk_map(std::vector<Node> kv = {}) { Node x; x.major = 5; x.kids = std::move(kv); x.arg = x.kids.size() / 2; x.ai = min_ai(x.arg); return x; }
inline Node mk_tag(uint64_t t, Node c) { Node x; x.major = 6; x.arg = t; x.ai = min_ai(t); x.kids.push_back(std::move(c)); return x; }
inline Node mk_simple(int v) { Node x; x.major = 7; x.arg = v; x.ai = v < 24 ? v : 24; return x; }
inline Node mk_bool(bool b) { return mk_simple(b ? 21 : 20); }
inline Node mk_float(int ai, uint64_t bits) { Node x; x.major = 7; x.ai = ai; x.arg = bits; return x; }

// preferred (shortest, definite) encoding of primitives, used as oracle for the encoder (C06)
inline std::string pref_head(int major, uint64_t v) { std::string s; put_head(s, major, min_ai(v), v); return s; }

inline std::string hex(const std::string& s) {
    static const char* H = "0123456789abcdef"; std::string o; o.reserve(s.size() * 2);
    for (unsigned char c : s) { o.push_back(H[c >> 4]); o.push_back(H[c & 15]); } return o;
}
inline std::string unhex(const std::string& h) {
    auto v = [](char c) { return c <= '9' ? c - '0' : (c | 32) - 'a' + 10; };
    std::string o; for (size_t i = 0; i + 1 < h.size(); i += 2) o.push_back((char)(v(h[i]) * 16 + v(h[i + 1]))); return o;
}

// count nodes / visit in pre-order with mutable access (for rewrites)
template <class F> void visit(Node& x, F&& f) { f(x); for (auto& k : x.kids) visit(k, f); }
template <class F> void visit(const Node& x, F&& f) { f(x); for (auto& k : x.kids) visit(k, f); }

} // namespace ref
