// Independent RFC 8618 schema validator + interpreter over the ref::Node tree.
// Written from RFC 8618 section 7 / Appendix A (key tables in DESIGN.md Appendix A) only.
#pragma once
#include "cbor.hpp"
#include <map>
#include <set>
#include <sstream>
#include <functional>

namespace ref {

struct SchemaError : std::runtime_error { using std::runtime_error::runtime_error; };
typedef unsigned __int128 u128;

inline std::string u128s(u128 v) { if (v == 0) return "0"; std::string s; while (v) { s.insert(s.begin(), char('0' + (int)(v % 10))); v /= 10; } return s; }

struct RParams {
    uint64_t tps = 0, max_items = 0;
    uint64_t qr_hints = 0, sig_hints = 0, rr_hints = 0, other_hints = 0;
    std::string dump;
};

struct RBlock {
    size_t begin = 0, end = 0;
    bool has_bpi = false; uint64_t bpi = 0;
    bool has_earliest = false; uint64_t e_secs = 0, e_ticks = 0;
    std::string stats;                 // "-" absent
    std::vector<std::string> qrs, mms; // canonical record dumps (times absolute)
    std::vector<std::pair<std::string, uint64_t>> aecs;
    size_t tbl[9] = {0, 0, 0, 0, 0, 0, 0, 0, 0};
    std::vector<std::string> unreachable;  // "table[index]"
    std::vector<std::string> duplicates;   // "table[i]==table[j]" (legal in a file, but the exporter must never produce them)
    // member presence (C04)
    std::vector<uint32_t> qr_keys;     // bit k for keys 0..12, bits 13,14,15 for -1,-2,-3
    std::vector<uint32_t> qr_qe, qr_re, qr_rpd; // member masks of sub-maps per QR (0 if absent)
    std::vector<uint32_t> sig_keys;    // per signature table entry
    std::vector<uint32_t> rr_keys;     // per rr table entry (bits 2: ttl, 3: rdata)
    std::vector<uint64_t> offsets;     // raw time offsets of QRs and MMs, in file order
    bool has_aec_array = false, has_mm_array = false, has_qr_array = false;
};

struct RFile {
    std::string preamble;              // canonical dump of the whole preamble
    uint64_t major = 0, minor = 0; bool has_private = false; uint64_t priv = 0;
    std::vector<RParams> params;
    std::vector<RBlock> blocks;
    size_t header_end = 0;             // offset of the first byte after the blocks-array head
    bool blocks_indef = false;
};

namespace detail {
typedef std::vector<std::pair<int64_t, const Node*>> Entries;
inline Entries entries(const Node& m, const char* ctx) {
    if (!m.is_map()) throw SchemaError(std::string(ctx) + ": not a map");
    Entries e; std::set<int64_t> seen;
    for (size_t i = 0; i + 1 < m.kids.size(); i += 2) {
        const Node& k = m.kids[i];
        if (!k.is_int()) throw SchemaError(std::string(ctx) + ": non-integer key");
        if (k.arg > (uint64_t)INT64_MAX) continue;   // integer keys beyond the int64 range are legal CBOR and certainly unknown to RFC 8618: ignored
        int64_t kv = k.is_uint() ? (int64_t)k.arg : -1 - (int64_t)k.arg;
        if (!seen.insert(kv).second) throw SchemaError(std::string(ctx) + ": duplicate key " + std::to_string(kv));
        e.push_back({kv, &m.kids[i + 1]});
    }
    return e;
}
inline uint64_t uintv(const Node& x, const char* ctx, uint64_t max = UINT64_MAX) {
    if (!x.is_uint()) throw SchemaError(std::string(ctx) + ": not an unsigned integer");
    if (x.arg > max) throw SchemaError(std::string(ctx) + ": value out of range");
    return x.arg;
}
inline std::string intv(const Node& x, const char* ctx) {
    if (!x.is_int()) throw SchemaError(std::string(ctx) + ": not an integer");
    if (x.is_uint()) return u128s(x.arg);
    return "-" + u128s((u128)x.arg + 1);
}
inline const std::string& bstr(const Node& x, const char* ctx) { if (!x.is_bstr()) throw SchemaError(std::string(ctx) + ": not a byte string"); return x.bytes; }
inline const std::string& tstr(const Node& x, const char* ctx) { if (!x.is_tstr()) throw SchemaError(std::string(ctx) + ": not a text string"); return x.bytes; }
inline bool boolv(const Node& x, const char* ctx) { if (!x.is_bool()) throw SchemaError(std::string(ctx) + ": not a bool"); return x.ai == 21; }
inline const Node& arr(const Node& x, const char* ctx) { if (!x.is_array()) throw SchemaError(std::string(ctx) + ": not an array"); return x; }
inline void need(bool c, const std::string& what) { if (!c) throw SchemaError(what); }
}

struct ClassTypeV { uint64_t type, cls; };
struct SigV { std::map<int, uint64_t> m; };
struct QuestionV { uint64_t name, ct; };
struct RRV { uint64_t name, ct; bool has_ttl = false; uint64_t ttl = 0; bool has_rdata = false; uint64_t rdata = 0; };
struct MMDV { bool has_ip = false; uint64_t ip = 0; std::map<int, uint64_t> m; bool has_payload = false; std::string payload; };

class Interp {
public:
    // Validate + interpret a whole file (one CBOR item, already parsed strictly).
    static RFile file(const Node& root) {
        using namespace detail;
        RFile f;
        need(root.is_array() && root.kids.size() == 3, "file: not an array of 3");
        need(root.kids[0].is_tstr() && root.kids[0].bytes == "C-DNS", "file: type id is not \"C-DNS\"");
        preamble(root.kids[1], f);
        const Node& blocks = arr(root.kids[2], "file blocks");
        f.blocks_indef = blocks.indef;
        f.header_end = blocks.kids.empty() ? (blocks.indef ? blocks.end - 1 : blocks.end) : blocks.kids[0].begin;
        for (auto& b : blocks.kids) f.blocks.push_back(block(b, f));
        return f;
    }

    static void preamble(const Node& p, RFile& f) {
        using namespace detail;
        std::ostringstream o;
        bool hmaj = false, hmin = false, hbp = false;
        std::string bps;
        for (auto& e : entries(p, "file preamble")) {
            switch (e.first) {
            case 0: f.major = uintv(*e.second, "major version"); hmaj = true; break;
            case 1: f.minor = uintv(*e.second, "minor version"); hmin = true; break;
            case 2: f.priv = uintv(*e.second, "private version"); f.has_private = true; break;
            case 3: {
                const Node& a = arr(*e.second, "block parameters array");
                need(!a.kids.empty(), "file preamble: no block parameters");
                for (auto& bp : a.kids) f.params.push_back(block_parameters(bp));
                hbp = true; break; }
            default: break;
            }
        }
        need(hmaj && hmin && hbp, "file preamble: mandatory member missing");
        o << "maj=" << f.major << ";min=" << f.minor << ";priv=" << (f.has_private ? std::to_string(f.priv) : "-");
        for (size_t i = 0; i < f.params.size(); i++) o << ";bp[" << i << "]{" << f.params[i].dump << "}";
        f.preamble = o.str();
    }

    static std::string uint_list(const Node& a, const char* ctx) {
        using namespace detail; std::string s = "[";
        for (auto& k : arr(a, ctx).kids) { s += std::to_string(uintv(k, ctx)); s += ","; }
        return s + "]";
    }

    static RParams block_parameters(const Node& n) {
        using namespace detail;
        RParams r; std::ostringstream o; bool hsp = false; std::string sp, cp = "cp-";
        for (auto& e : entries(n, "block parameters")) {
            if (e.first == 0) { sp = storage_parameters(*e.second, r); hsp = true; }
            else if (e.first == 1) cp = collection_parameters(*e.second);
        }
        need(hsp, "block parameters: storage parameters missing");
        r.dump = sp + ";" + cp; return r;
    }

    static std::string storage_parameters(const Node& n, RParams& r) {
        using namespace detail;
        std::map<int, std::string> m; bool h[5] = {false, false, false, false, false};
        for (auto& e : entries(n, "storage parameters")) {
            const Node& v = *e.second;
            switch (e.first) {
            case 0: r.tps = uintv(v, "ticks-per-second"); m[0] = std::to_string(r.tps); h[0] = true; break;
            case 1: r.max_items = uintv(v, "max-block-items"); m[1] = std::to_string(r.max_items); h[1] = true; break;
            case 2: {
                bool hh[4] = {false, false, false, false};
                for (auto& he : entries(v, "storage hints")) {
                    if (he.first == 0) { r.qr_hints = uintv(*he.second, "qr hints"); hh[0] = true; }
                    else if (he.first == 1) { r.sig_hints = uintv(*he.second, "sig hints"); hh[1] = true; }
                    else if (he.first == 2) { r.rr_hints = uintv(*he.second, "rr hints"); hh[2] = true; }
                    else if (he.first == 3) { r.other_hints = uintv(*he.second, "other hints"); hh[3] = true; }
                }
                need(hh[0] && hh[1] && hh[2] && hh[3], "storage hints: mandatory member missing");
                m[2] = std::to_string(r.qr_hints) + "," + std::to_string(r.sig_hints) + "," + std::to_string(r.rr_hints) + "," + std::to_string(r.other_hints);
                h[2] = true; break; }
            case 3: m[3] = uint_list(v, "opcodes"); h[3] = true; break;
            case 4: m[4] = uint_list(v, "rr-types"); h[4] = true; break;
            case 5: m[5] = std::to_string(uintv(v, "storage-flags")); break;
            case 6: case 7: case 8: case 9: m[(int)e.first] = std::to_string(uintv(v, "address prefix")); break;
            case 10: m[10] = hex(tstr(v, "sampling-method")); break;
            case 11: m[11] = hex(tstr(v, "anonymization-method")); break;
            default: break;
            }
        }
        need(h[0] && h[1] && h[2] && h[3] && h[4], "storage parameters: mandatory member missing");
        static const char* names[] = {"tps", "mbi", "hints", "opcodes", "rrtypes", "sf", "c4", "c6", "s4", "s6", "sm", "am"};
        std::string s = "sp{";
        for (auto& kv : m) { s += names[kv.first]; s += "="; s += kv.second; s += ";"; }
        return s + "}";
    }

    static std::string collection_parameters(const Node& n) {
        using namespace detail;
        std::map<int, std::string> m;
        for (auto& e : entries(n, "collection parameters")) {
            const Node& v = *e.second;
            switch (e.first) {
            case 0: case 1: case 2: m[(int)e.first] = std::to_string(uintv(v, "collection uint")); break;
            case 3: m[3] = boolv(v, "promisc") ? "1" : "0"; break;
            case 4: { std::string s = "["; for (auto& k : arr(v, "interfaces").kids) s += hex(tstr(k, "interface")) + ","; if (!arr(v, "x").kids.empty()) m[4] = s + "]"; break; }
            case 5: { std::string s = "["; for (auto& k : arr(v, "server-addresses").kids) s += hex(bstr(k, "server address")) + ","; if (!v.kids.empty()) m[5] = s + "]"; break; }
            case 6: if (!arr(v, "vlan-ids").kids.empty()) m[6] = uint_list(v, "vlan-ids"); break;
            case 7: case 8: case 9: m[(int)e.first] = hex(tstr(v, "collection text")); break;
            default: break;
            }
        }
        static const char* names[] = {"qt", "st", "snap", "promisc", "ifs", "srv", "vlan", "filter", "gen", "host"};
        std::string s = "cp{";
        for (auto& kv : m) { s += names[kv.first]; s += "="; s += kv.second; s += ";"; }
        return s + "}";
    }

    // ------------------------------------------------------------------ blocks
    static std::string ts_str(const RParams& bp, uint64_t es, uint64_t et, uint64_t off) {
        detail::need(bp.tps != 0, "time offset used with ticks-per-second 0");
        u128 t = (u128)es * bp.tps + et + off;
        return u128s(t / bp.tps) + "." + u128s(t % bp.tps);
    }

    static RBlock block(const Node& n, const RFile& f) {
        using namespace detail;
        RBlock b; b.begin = n.begin; b.end = n.end; b.stats = "-";
        const Node *pre = nullptr, *stats = nullptr, *tables = nullptr, *qrs = nullptr, *aecs = nullptr, *mms = nullptr;
        for (auto& e : entries(n, "block")) {
            switch (e.first) {
            case 0: pre = e.second; break; case 1: stats = e.second; break; case 2: tables = e.second; break;
            case 3: qrs = e.second; break; case 4: aecs = e.second; break; case 5: mms = e.second; break;
            default: break;
            }
        }
        need(pre != nullptr, "block: preamble missing");
        for (auto& e : entries(*pre, "block preamble")) {
            if (e.first == 0) {
                const Node& t = arr(*e.second, "earliest-time");
                need(t.kids.size() == 2, "earliest-time: not 2 elements");
                b.e_secs = uintv(t.kids[0], "earliest secs"); b.e_ticks = uintv(t.kids[1], "earliest ticks"); b.has_earliest = true;
            } else if (e.first == 1) { b.bpi = uintv(*e.second, "block-parameters-index"); b.has_bpi = true; }
        }
        need(b.bpi < f.params.size(), "block: block-parameters-index " + std::to_string(b.bpi) + " out of range");
        const RParams& bp = f.params[b.bpi];
        if (stats) {
            static const char* sn[] = {"pm", "qr", "uq", "ur", "do", "mi"};
            std::map<int, uint64_t> m;
            for (auto& e : entries(*stats, "block statistics")) if (e.first >= 0 && e.first <= 5) m[(int)e.first] = uintv(*e.second, "statistic");
            b.stats = "{"; for (auto& kv : m) { b.stats += sn[kv.first]; b.stats += "=" + std::to_string(kv.second) + ";"; } b.stats += "}";
        }
        // tables
        std::vector<std::string> ip, names; std::vector<ClassTypeV> cts; std::vector<SigV> sigs;
        std::vector<std::vector<uint64_t>> qlists, rrlists; std::vector<QuestionV> qs; std::vector<RRV> rrs; std::vector<MMDV> mmds;
        if (tables) {
            for (auto& e : entries(*tables, "block tables")) {
                const Node& v = *e.second;
                switch (e.first) {
                case 0: for (auto& k : arr(v, "ip table").kids) ip.push_back(bstr(k, "ip address")); break;
                case 1: for (auto& k : arr(v, "classtype table").kids) {
                        ClassTypeV c{0, 0}; bool ht = false, hc = false;
                        for (auto& ce : entries(k, "classtype")) { if (ce.first == 0) { c.type = uintv(*ce.second, "type"); ht = true; } else if (ce.first == 1) { c.cls = uintv(*ce.second, "class"); hc = true; } }
                        need(ht && hc, "classtype: mandatory member missing"); cts.push_back(c); } break;
                case 2: for (auto& k : arr(v, "name-rdata table").kids) names.push_back(bstr(k, "name-rdata")); break;
                case 3: for (auto& k : arr(v, "signature table").kids) {
                        SigV s; uint32_t mask = 0;
                        for (auto& se : entries(k, "qr signature")) if (se.first >= 0 && se.first <= 16) { s.m[(int)se.first] = uintv(*se.second, "signature member"); mask |= 1u << se.first; }
                        sigs.push_back(s); b.sig_keys.push_back(mask); } break;
                case 4: for (auto& k : arr(v, "qlist table").kids) { std::vector<uint64_t> l; for (auto& i : arr(k, "question list").kids) l.push_back(uintv(i, "question index")); qlists.push_back(l); } break;
                case 5: for (auto& k : arr(v, "question table").kids) {
                        QuestionV q{0, 0}; bool hn = false, hc = false;
                        for (auto& qe : entries(k, "question")) { if (qe.first == 0) { q.name = uintv(*qe.second, "name-index"); hn = true; } else if (qe.first == 1) { q.ct = uintv(*qe.second, "classtype-index"); hc = true; } }
                        need(hn && hc, "question: mandatory member missing"); qs.push_back(q); } break;
                case 6: for (auto& k : arr(v, "rrlist table").kids) { std::vector<uint64_t> l; for (auto& i : arr(k, "rr list").kids) l.push_back(uintv(i, "rr index")); rrlists.push_back(l); } break;
                case 7: for (auto& k : arr(v, "rr table").kids) {
                        RRV r{0, 0}; bool hn = false, hc = false; uint32_t mask = 0;
                        for (auto& re : entries(k, "rr")) {
                            if (re.first == 0) { r.name = uintv(*re.second, "name-index"); hn = true; }
                            else if (re.first == 1) { r.ct = uintv(*re.second, "classtype-index"); hc = true; }
                            else if (re.first == 2) { r.ttl = uintv(*re.second, "ttl"); r.has_ttl = true; mask |= 4; }
                            else if (re.first == 3) { r.rdata = uintv(*re.second, "rdata-index"); r.has_rdata = true; mask |= 8; }
                        }
                        need(hn && hc, "rr: mandatory member missing"); rrs.push_back(r); b.rr_keys.push_back(mask); } break;
                case 8: for (auto& k : arr(v, "mm data table").kids) {
                        MMDV d;
                        for (auto& de : entries(k, "malformed message data")) {
                            if (de.first == 0) { d.ip = uintv(*de.second, "server-address-index"); d.has_ip = true; }
                            else if (de.first == 1 || de.first == 2) d.m[(int)de.first] = uintv(*de.second, "mm data member");
                            else if (de.first == 3) { d.payload = bstr(*de.second, "mm-payload"); d.has_payload = true; }
                        }
                        mmds.push_back(d); } break;
                default: break;
                }
            }
        }
        b.tbl[0] = ip.size(); b.tbl[1] = cts.size(); b.tbl[2] = names.size(); b.tbl[3] = sigs.size(); b.tbl[4] = qlists.size();
        b.tbl[5] = qs.size(); b.tbl[6] = rrlists.size(); b.tbl[7] = rrs.size(); b.tbl[8] = mmds.size();
        std::vector<std::vector<char>> reach(9);
        for (int i = 0; i < 9; i++) reach[i].assign(b.tbl[i], 0);
        static const char* tn[] = {"ip", "classtype", "name_rdata", "qr_sig", "qlist", "qrr", "rrlist", "rr", "mmd"};
        auto ref_ = [&](int t, uint64_t i, const char* who) {
            need(i < b.tbl[t], std::string("index closure: ") + who + " -> " + tn[t] + "[" + std::to_string(i) + "] but table size " + std::to_string(b.tbl[t]));
            reach[t][i] = 1;
        };
        // closure inside the tables themselves is demanded for every entry, reachable or not
        for (auto& s : sigs) { if (s.m.count(0)) need(s.m.at(0) < ip.size(), "index closure: signature server-address-index"); if (s.m.count(8)) need(s.m.at(8) < cts.size(), "index closure: signature classtype-index"); if (s.m.count(15)) need(s.m.at(15) < names.size(), "index closure: signature opt-rdata-index"); }
        for (auto& l : qlists) for (auto i : l) need(i < qs.size(), "index closure: qlist entry");
        for (auto& l : rrlists) for (auto i : l) need(i < rrs.size(), "index closure: rrlist entry");
        for (auto& q : qs) { need(q.name < names.size(), "index closure: question name-index"); need(q.ct < cts.size(), "index closure: question classtype-index"); }
        for (auto& r : rrs) { need(r.name < names.size(), "index closure: rr name-index"); need(r.ct < cts.size(), "index closure: rr classtype-index"); if (r.has_rdata) need(r.rdata < names.size(), "index closure: rr rdata-index"); }
        for (auto& d : mmds) if (d.has_ip) need(d.ip < ip.size(), "index closure: mm data server-address-index");

        auto qlist_str = [&](uint64_t li) {
            ref_(4, li, "question-index"); std::string s = "[";
            for (auto qi : qlists[li]) { ref_(5, qi, "qlist"); auto& q = qs[qi]; ref_(2, q.name, "question"); ref_(1, q.ct, "question");
                s += hex(names[q.name]) + "/" + std::to_string(cts[q.ct].type) + "/" + std::to_string(cts[q.ct].cls) + ","; }
            return s + "]"; };
        auto rrlist_str = [&](uint64_t li) {
            ref_(6, li, "rrlist-index"); std::string s = "[";
            for (auto ri : rrlists[li]) { ref_(7, ri, "rrlist"); auto& r = rrs[ri]; ref_(2, r.name, "rr"); ref_(1, r.ct, "rr");
                s += hex(names[r.name]) + "/" + std::to_string(cts[r.ct].type) + "/" + std::to_string(cts[r.ct].cls) + "/";
                s += r.has_ttl ? std::to_string(r.ttl) : "-"; s += "/";
                if (r.has_rdata) { ref_(2, r.rdata, "rr rdata"); s += hex(names[r.rdata]); } else s += "-";
                s += ","; }
            return s + "]"; };

        if (qrs) {
            b.has_qr_array = true;
            for (auto& item : arr(*qrs, "query-responses").kids) {
                std::map<int, std::string> m; uint32_t keys = 0, qe = 0, re = 0, rpd = 0;
                for (auto& e : entries(item, "query response")) {
                    const Node& v = *e.second;
                    if (e.first >= 0 && e.first <= 12) keys |= 1u << e.first;
                    if (e.first <= -1 && e.first >= -3) keys |= 1u << (12 - e.first);
                    switch (e.first) {
                    case 0: { uint64_t off = uintv(v, "time-offset"); b.offsets.push_back(off); m[0] = "ts=" + ts_str(bp, b.e_secs, b.e_ticks, off); break; }
                    case 1: { uint64_t i = uintv(v, "client-address-index"); ref_(0, i, "qr client-address"); m[1] = "cip=" + hex(ip[i]); break; }
                    case 2: m[2] = "cport=" + std::to_string(uintv(v, "client-port")); break;
                    case 3: m[3] = "txid=" + std::to_string(uintv(v, "transaction-id")); break;
                    case 4: {
                        uint64_t i = uintv(v, "qr-signature-index"); ref_(3, i, "qr signature"); const SigV& s = sigs[i]; std::string o;
                        static const char* sn[] = {"sip", "sport", "tf", "qrtype", "sigflags", "opcode", "dnsflags", "qrcode", "qct", "qd", "an", "ns", "ar", "edns", "udp", "opt", "rrcode"};
                        for (auto& kv : s.m) {
                            o += sn[kv.first]; o += "=";
                            if (kv.first == 0) { ref_(0, kv.second, "signature"); o += hex(ip[kv.second]); }
                            else if (kv.first == 8) { ref_(1, kv.second, "signature"); o += std::to_string(cts[kv.second].type) + "/" + std::to_string(cts[kv.second].cls); }
                            else if (kv.first == 15) { ref_(2, kv.second, "signature"); o += hex(names[kv.second]); }
                            else o += std::to_string(kv.second);
                            o += ";";
                        }
                        if (!o.empty()) o.pop_back();
                        m[4] = o; break; }
                    case 5: m[5] = "hop=" + std::to_string(uintv(v, "client-hoplimit")); break;
                    case 6: m[6] = "delay=" + intv(v, "response-delay"); break;
                    case 7: { uint64_t i = uintv(v, "query-name-index"); ref_(2, i, "qr query-name"); m[7] = "qname=" + hex(names[i]); break; }
                    case 8: m[8] = "qsize=" + std::to_string(uintv(v, "query-size")); break;
                    case 9: m[9] = "rsize=" + std::to_string(uintv(v, "response-size")); break;
                    case 10: { std::string o, o0, o1;
                        for (auto& pe : entries(v, "response processing data")) {
                            if (pe.first == 0) { uint64_t i = uintv(*pe.second, "bailiwick-index"); ref_(2, i, "bailiwick"); o0 = "bail=" + hex(names[i]) + ";"; rpd |= 1; }
                            else if (pe.first == 1) { o1 = "pflags=" + std::to_string(uintv(*pe.second, "processing-flags")) + ";"; rpd |= 2; }
                        }
                        o = o0 + o1;
                        if (!o.empty()) o.pop_back();
                        m[10] = o; break; }
                    case 11: case 12: { std::map<int, std::string> x; const char* p = e.first == 11 ? "q" : "r"; uint32_t& mask = e.first == 11 ? qe : re;
                        for (auto& xe : entries(v, "query/response extended")) {
                            if (xe.first < 0 || xe.first > 3) continue;
                            uint64_t i = uintv(*xe.second, "extended index"); mask |= 1u << xe.first;
                            static const char* xn[] = {"q", "an", "au", "ad"};
                            x[(int)xe.first] = std::string(p) + xn[xe.first] + "=" + (xe.first == 0 ? qlist_str(i) : rrlist_str(i));
                        }
                        std::string o; for (auto& kv : x) o += kv.second + ";"; if (!o.empty()) o.pop_back();
                        m[(int)e.first] = o; break; }
                    case -1: m[13] = "asn=" + hex(tstr(v, "asn")); break;
                    case -2: m[14] = "cc=" + hex(tstr(v, "country-code")); break;
                    case -3: m[15] = "rtt=" + intv(v, "round-trip-time"); break;
                    default: break;
                    }
                }
                std::string s; for (auto& kv : m) if (!kv.second.empty()) { s += kv.second; s += ";"; }
                b.qrs.push_back(s); b.qr_keys.push_back(keys); b.qr_qe.push_back(qe); b.qr_re.push_back(re); b.qr_rpd.push_back(rpd);
            }
        }
        if (aecs) {
            b.has_aec_array = true;
            for (auto& item : arr(*aecs, "address-event-counts").kids) {
                bool ht = false, ha = false, hc = false; uint64_t type = 0, addr = 0, cnt = 0; std::string code = "-", tf = "-";
                for (auto& e : entries(item, "address event count")) {
                    const Node& v = *e.second;
                    switch (e.first) {
                    case 0: type = uintv(v, "ae-type"); ht = true; break;
                    case 1: code = std::to_string(uintv(v, "ae-code")); break;
                    case 2: addr = uintv(v, "ae-address-index"); ha = true; break;
                    case 3: tf = std::to_string(uintv(v, "ae-transport-flags")); break;
                    case 4: cnt = uintv(v, "ae-count"); hc = true; break;
                    default: break;
                    }
                }
                need(ht && ha && hc, "address event count: mandatory member missing");
                ref_(0, addr, "aec address");
                b.aecs.push_back({"type=" + std::to_string(type) + ";code=" + code + ";tf=" + tf + ";ip=" + hex(ip[addr]), cnt});
            }
        }
        if (mms) {
            b.has_mm_array = true;
            for (auto& item : arr(*mms, "malformed-messages").kids) {
                std::map<int, std::string> m;
                for (auto& e : entries(item, "malformed message")) {
                    const Node& v = *e.second;
                    switch (e.first) {
                    case 0: { uint64_t off = uintv(v, "mm time-offset"); b.offsets.push_back(off); m[0] = "ts=" + ts_str(bp, b.e_secs, b.e_ticks, off); break; }
                    case 1: { uint64_t i = uintv(v, "mm client-address-index"); ref_(0, i, "mm client-address"); m[1] = "cip=" + hex(ip[i]); break; }
                    case 2: m[2] = "cport=" + std::to_string(uintv(v, "mm client-port")); break;
                    case 3: { uint64_t i = uintv(v, "message-data-index"); ref_(8, i, "mm data"); const MMDV& d = mmds[i]; std::string o;
                        if (d.has_ip) { ref_(0, d.ip, "mm data"); o += "sip=" + hex(ip[d.ip]) + ";"; }
                        if (d.m.count(1)) o += "sport=" + std::to_string(d.m.at(1)) + ";";
                        if (d.m.count(2)) o += "tf=" + std::to_string(d.m.at(2)) + ";";
                        if (d.has_payload) o += "payload=" + hex(d.payload) + ";";
                        if (!o.empty()) o.pop_back();
                        m[3] = o; break; }
                    default: break;
                    }
                }
                std::string s; for (auto& kv : m) if (!kv.second.empty()) { s += kv.second; s += ";"; }
                b.mms.push_back(s);
            }
        }
        { // duplicate detection on canonical entry strings
            std::vector<std::vector<std::string>> can(9);
            for (auto& x : ip) can[0].push_back(hex(x));
            for (auto& c : cts) can[1].push_back(std::to_string(c.type) + "/" + std::to_string(c.cls));
            for (auto& x : names) can[2].push_back(hex(x));
            for (auto& g : sigs) { std::string c; for (auto& kv : g.m) c += std::to_string(kv.first) + "=" + std::to_string(kv.second) + ";"; can[3].push_back(c); }
            for (auto& l : qlists) { std::string c; for (auto i : l) c += std::to_string(i) + ","; can[4].push_back(c); }
            for (auto& q : qs) can[5].push_back(std::to_string(q.name) + "/" + std::to_string(q.ct));
            for (auto& l : rrlists) { std::string c; for (auto i : l) c += std::to_string(i) + ","; can[6].push_back(c); }
            for (auto& r : rrs) can[7].push_back(std::to_string(r.name) + "/" + std::to_string(r.ct) + "/" + (r.has_ttl ? std::to_string(r.ttl) : "-") + "/" + (r.has_rdata ? std::to_string(r.rdata) : "-"));
            for (auto& d : mmds) { std::string c = (d.has_ip ? std::to_string(d.ip) : "-") + "/"; for (auto& kv : d.m) c += std::to_string(kv.first) + "=" + std::to_string(kv.second) + ";"; c += d.has_payload ? "p" + hex(d.payload) : "-"; can[8].push_back(c); }
            for (int t = 0; t < 9; t++) { std::map<std::string, size_t> seen; for (size_t i = 0; i < can[t].size(); i++) { auto it = seen.find(can[t][i]); if (it != seen.end()) b.duplicates.push_back(std::string(tn[t]) + "[" + std::to_string(it->second) + "]==" + tn[t] + "[" + std::to_string(i) + "]"); else seen[can[t][i]] = i; } }
        }
        // transitive reachability for entries referenced only through other table entries is
        // already marked by the *_str walkers; anything left unmarked is unreachable
        for (int t = 0; t < 9; t++) for (size_t i = 0; i < b.tbl[t]; i++) if (!reach[t][i]) b.unreachable.push_back(std::string(tn[t]) + "[" + std::to_string(i) + "]");
        return b;
    }
};

// Parse + validate a whole file; throws CborError / SchemaError.
inline RFile read_file(const std::string& bytes) { Node root = parse_exact(bytes); return Interp::file(root); }

// one-line canonical dump of a block (records with absolute times)
inline std::string block_dump(const RBlock& b) {
    std::ostringstream o;
    o << "bpi=" << b.bpi << ";stats=" << b.stats << ";QR[";
    for (auto& q : b.qrs) o << "{" << q << "}";
    o << "];AEC[";
    std::map<std::string, uint64_t> a; for (auto& x : b.aecs) a[x.first] += x.second;
    for (auto& x : a) o << "{" << x.first << ";n=" << x.second << "}";
    o << "];MM[";
    for (auto& m : b.mms) o << "{" << m << "}";
    o << "]";
    return o.str();
}

} // namespace ref
