#!/usr/bin/env python3
"""Cross-check for C14: Python's gzip/lzma modules decompress a sample of outputs produced by the real
writers (harness/comp.cpp --emit) and compare them with the bytes that were written."""
import sys, os, json, subprocess, tempfile, shutil, zlib, lzma, glob
VERIF = os.environ.get("VERIF_DIR", os.path.dirname(os.path.dirname(os.path.abspath(__file__))))
sys.path.insert(0, VERIF)
from vlib import build

def main():
    a = sys.argv[1:]
    out = a[a.index("--out") + 1]
    res = {"counters": {"evaluations": 0, "nontrivial": 0, "traces": 0}, "distinct_outcomes": 0, "outcomes": [], "samples": [], "violations": [], "violation_counts": {}, "notes": [], "deadline_hit": False}
    if "--replay" in a:
        json.dump(res, open(out, "w")); return 0
    exe = build.harness("comp", "plain")
    d = tempfile.mkdtemp(prefix="vpy-", dir="/dev/shm" if os.path.isdir("/dev/shm") else None)
    try:
        tmp = os.path.join(d, "r.json")
        subprocess.run([exe, "--tier", "quick", "--out", tmp, "--emit", d, "--deadline", "1"], check=False, stdout=subprocess.DEVNULL, stderr=subprocess.DEVNULL)
        outcomes = set()
        for exp in sorted(glob.glob(os.path.join(d, "*.expected"))):
            base = exp[:-9]
            want = open(exp, "rb").read()
            for ext, kind in ((".gz", "gzip"), (".xz", "xz")):
                p = base + ext
                if not os.path.exists(p):
                    continue
                z = open(p, "rb").read()
                res["counters"]["evaluations"] += 1; res["counters"]["traces"] += 1
                if want: res["counters"]["nontrivial"] += 1
                try:
                    if kind == "gzip":
                        o = zlib.decompressobj(wbits=31); got = o.decompress(z) + o.flush(); ok = o.eof and not o.unused_data
                    else:
                        o = lzma.LZMADecompressor(format=lzma.FORMAT_XZ); got = o.decompress(z); ok = o.eof and not o.unused_data
                except Exception as e:
                    got, ok = b"", False
                if not ok or got != want:
                    k = "pydecomp|" + kind
                    res["violations"].append({"key": k, "what": "%s: python %s module does not reproduce the written bytes (complete=%s, %d vs %d bytes)" % (os.path.basename(p), kind, ok, len(got), len(want)), "replay": os.path.basename(p)})
                    res["violation_counts"][k] = res["violation_counts"].get(k, 0) + 1
                outcomes.add(kind + (":ok" if ok and got == want else ":viol"))
                if len(res["samples"]) < 3: res["samples"].append("%s %d bytes -> %d bytes" % (os.path.basename(p), len(z), len(got)))
        res["outcomes"] = sorted(outcomes); res["distinct_outcomes"] = len(outcomes)
    finally:
        shutil.rmtree(d, ignore_errors=True)
    json.dump(res, open(out, "w"))
    return 0

if __name__ == "__main__":
    sys.exit(main())
