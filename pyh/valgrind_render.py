#!/usr/bin/env python3
"""C03 side pass: the renderer inputs (malformed names / addresses) under valgrind memcheck on the uninstrumented build.
Memcheck sees reads of uninitialised bytes inside live std::string storage (e.g. inet_ntop on < 4 bytes), which ASan cannot."""
import sys, os, json, subprocess, re
VERIF = os.environ.get("VERIF_DIR", os.path.dirname(os.path.dirname(os.path.abspath(__file__))))
sys.path.insert(0, VERIF)
from vlib import build

def main():
    a = sys.argv[1:]; out = a[a.index("--out") + 1]
    res = {"counters": {"evaluations": 0, "nontrivial": 0, "traces": 0}, "distinct_outcomes": 1, "outcomes": ["valgrind-clean"], "samples": [], "violations": [], "violation_counts": {}, "notes": [], "deadline_hit": False}
    exe = build.harness("rewrite", "plain")
    cmd = ["valgrind", "--quiet", "--error-exitcode=97", "--track-origins=no", "--leak-check=no", exe, "--mode", "render", "--child", "1"]
    r = subprocess.run(cmd, stdout=subprocess.PIPE, stderr=subprocess.PIPE, text=True, errors="replace", timeout=1500)
    res["counters"]["evaluations"] = res["counters"]["traces"] = res["counters"]["nontrivial"] = 1
    res["samples"].append("valgrind memcheck over all renderer inputs in one process, exit %d" % r.returncode)
    errs = [l for l in r.stderr.splitlines() if l.startswith("==")]
    if r.returncode == 97 or any("uninitialised" in l or "Invalid read" in l or "Invalid write" in l for l in errs):
        kinds = sorted(set(re.sub(r"^==\d+== ", "", l) for l in errs if re.search(r"uninitialised|Invalid (read|write)|depends on", l)))
        frame = ""
        for l in errs:
            m = re.search(r"(?:by|at) 0x[0-9A-F]+: (get_readable\w+|CDNS::[\w:]+)", l)
            if m: frame = m.group(1); break
        k = "render|valgrind|" + (kinds[0][:60] if kinds else "error") + "|" + frame
        res["violations"].append({"key": k, "what": "valgrind memcheck: " + " / ".join(errs[:14])[:1500], "replay": "valgrind"})
        res["violation_counts"][k] = 1; res["outcomes"] = ["valgrind-error"]
    elif r.returncode != 0:
        res["notes"].append("valgrind run ended with exit %d: %s" % (r.returncode, r.stderr[-300:]))
    json.dump(res, open(out, "w")); return 0

if __name__ == "__main__":
    sys.exit(main())
