// Seed files produced by the real exporter (in memory), shared by E-REWRITE / E-CLI harnesses.
#pragma once
#include "pools.hpp"

namespace seeds {

struct Opt { std::vector<ParamSpec> sets; int blocks = 2; int per_block = 2; size_t big_name = 0; std::string pad_text; bool stats = true; bool aec = true; bool mm = true; int qr_from = 0;
             uint8_t vmaj = 1, vmin = 0; int vpriv = 1; };

inline std::string make(const Opt& o) {
    std::vector<BlockParameters> bps; for (auto& s : o.sets) bps.push_back(build_bp(s));
    if (!o.pad_text.empty()) bps[0].storage_parameters.anonymization_method = o.pad_text;
    FilePreamble fp(bps); fp.m_major_format_version = o.vmaj; fp.m_minor_format_version = o.vmin;
    if (o.vpriv < 0) fp.m_private_version = boost::none; else fp.m_private_version = (uint8_t)o.vpriv;
    std::vector<std::string> outs;
    {
        CdnsExporter e(fp, MemSink{&outs}, CborOutputCompression::NO_COMPRESSION);
        for (int b = 0; b < o.blocks; b++) {
            unsigned set = b % o.sets.size(); e.set_active_block_parameters(set);
            if (b == 0 && set != 0) {}
            // the block being filled was armed at the previous write_block (or ctor: set 0)
            const Pools& P = make_pools(o.sets[b == 0 ? 0 : set].tps);
            for (int i = 0; i < o.per_block; i++) {
                GenericQueryResponse q = P.qr[(o.qr_from + b * o.per_block + i) % 5];
                if (o.big_name && b == 1 && i == 0) q.query_name = std::string(o.big_name, 'n');
                if (i > 0 && q.ts) q.ts->m_secs += i;
                e.buffer_qr(q, (o.stats && i == 0) ? P.stats[1 + (b & 1)] : boost::none);
            }
            if (o.aec) { e.buffer_aec(P.aec[b % 3]); e.buffer_aec(P.aec[b % 3]); e.buffer_aec(P.aec[(b + 1) % 3]); }
            if (o.mm) { e.buffer_mm(P.mm[b & 1 ? 3 : 0]); e.buffer_mm(P.mm[1]); }
            // switch the parameter set for the *next* block, then flush
            e.set_active_block_parameters((b + 1) % o.sets.size());
            e.write_block();
        }
    }
    return outs.at(0);
}

inline ParamSpec PS(uint64_t m, uint64_t tps, int h, int c = 0) { return ParamSpec{m, tps, h, c}; }

inline std::string small() { Opt o; o.sets = {PS(10000, 1000000, 0)}; o.blocks = 3; o.per_block = 1; o.qr_from = 1; o.stats = false; return make(o); }
inline std::string rich() { Opt o; o.sets = {PS(10000, 1000000, 0, true), PS(10000, 1000, 3, true)}; o.blocks = 2; o.per_block = 2; return make(o); }
inline std::string mid() { Opt o; o.sets = {PS(10000, 1000, 0), PS(10000, 1000000000, 5)}; o.blocks = 6; o.per_block = 3; return make(o); }
inline std::string big() { Opt o; o.sets = {PS(100000, 1000000, 0, true)}; o.blocks = 40; o.per_block = 12; o.big_name = 70000; return make(o); }
// padded through a text member of the preamble to exactly `total` bytes
inline std::string exact(size_t total, int blocks = 3) {
    Opt o; o.sets = {PS(10000, 1000000, 0)}; o.blocks = blocks; o.per_block = 2;
    o.pad_text = std::string(70000, 'a'); std::string f = make(o);
    long diff = (long)f.size() - (long)total; if (diff > 0 && (size_t)diff < 4000) { o.pad_text.resize(70000 - diff); f = make(o); }
    else { // generic: choose pad so that size hits total (head width of the text may change)
        for (int it = 0; it < 6 && f.size() != total; it++) { long d = (long)total - (long)f.size(); long n = (long)o.pad_text.size() + d; if (n < 1) n = 1; o.pad_text.assign((size_t)n, 'a'); f = make(o); }
    }
    return f;
}

} // namespace seeds
