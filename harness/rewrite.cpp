// E-REWRITE: seed-file based exhaustive enumerations on the real reader.
//   --mode prefix   (C05) every prefix in boundary windows; flat streams around window multiples; unreadable streams
//   --mode rewrite  (C08) every single semantics-preserving re-encoding / unknown-member insertion at every node
//   --mode mutate   (C03) truncations, byte substitutions, head-argument / major-type substitutions, nesting bombs,
//                         raw short strings, renderer inputs -- through every read-side entry point under ASan/UBSan
#include "util.hpp"
#include "seeds.hpp"
#include "consume.hpp"
#include <fstream>
using namespace vh;
using namespace ref;

static const size_t W = 65535;
static std::string g_dir;

// =========================================================================================== prefix (C05)
struct Seed { std::string name, bytes; RFile rf; std::vector<std::string> lib_blocks; std::string lib_preamble; std::string lib_error; };
static bool g_seed_errors_are_findings = false;   // prefix mode: a valid file that the library reader does not read completely is a finding, not a broken harness

static Seed mk_seed(const std::string& name, const std::string& bytes) {
    Seed s; s.name = name; s.bytes = bytes; s.rf = read_file(bytes);
    lib::LibFile lf = lib::read_bytes(bytes); s.lib_blocks = lf.blocks; s.lib_preamble = lf.preamble;
    if (lf.end != "eof" || lf.blocks.size() != s.rf.blocks.size()) { s.lib_error = "library reader returns " + std::to_string(lf.blocks.size()) + " of " + std::to_string(s.rf.blocks.size()) + " blocks and ends with: " + lf.end;
        if (!g_seed_errors_are_findings) { fprintf(stderr, "seed %s: library reader does not read the full file (%s)\n", name.c_str(), lf.end.c_str()); exit(2); } }
    return s;
}

struct V { std::string key, what; };

static void check_prefix0(const Seed& s, size_t n, int stream_kind, std::vector<V>& out) {
    std::string pre = s.bytes.substr(0, n);
    size_t expect_blocks = 0; for (auto& b : s.rf.blocks) if (b.end <= n) expect_blocks++;
    bool expect_header = n >= s.rf.header_end;
    lib::LibFile lf;
    if (stream_kind == 0) lf = lib::read_bytes(pre);
    else { std::string p = g_dir + "/p" + std::to_string(getpid()); spit(p, pre); std::ifstream f(p, std::ios::binary); lf = lib::read_stream(f); unlink(p.c_str()); }
    std::string where = s.name + " prefix " + std::to_string(n) + "/" + std::to_string(s.bytes.size()) + (stream_kind ? " (ifstream)" : "");
    std::string rel = n % W == 0 ? "n=k*65535" : (n % W <= 2 || W - n % W <= 2) ? "n~k*65535" : "other";
    if (n == s.bytes.size()) {
        if (lf.end != "eof" || lf.blocks.size() != s.lib_blocks.size()) out.push_back({"full-file|" + rel, where + ": full file ends with " + lf.end});
        return;
    }
    if (!expect_header) {
        if (lf.header_ok) out.push_back({"header-from-truncated-input|" + rel, where + ": constructor succeeded although the header needs " + std::to_string(s.rf.header_end) + " bytes"});
        else if (lf.end.rfind("end:", 0) != 0) out.push_back({"wrong-error-kind|header|" + rel, where + ": expected CdnsDecoderEnd, got " + lf.end});
        return;
    }
    if (!lf.header_ok) { out.push_back({"header-lost|" + rel, where + ": header not read: " + lf.end}); return; }
    if (lf.blocks.size() != expect_blocks) { out.push_back({std::string(lf.blocks.size() > expect_blocks ? "fabricated-block|" : "missing-block|") + rel, where + ": reader returned " + std::to_string(lf.blocks.size()) + " blocks, " + std::to_string(expect_blocks) + " are wholly contained; end=" + lf.end}); return; }
    for (size_t i = 0; i < expect_blocks; i++) if (lf.blocks[i] != s.lib_blocks[i]) { out.push_back({"block-differs|" + rel, where + ": block " + std::to_string(i) + " differs from the same block of the full file"}); return; }
    if (lf.end.rfind("end:", 0) != 0) out.push_back({(lf.end == "eof" ? "eof-on-truncated-input|" : "wrong-error-kind|") + rel, where + ": after the complete blocks expected CdnsDecoderEnd, got " + lf.end});
    // the end of input is sticky: asking again (a retry loop, a caller that ignores the first error) must fail the same way, never report a clean end or a block
    if (stream_kind == 0) {
        std::istringstream is(pre);
        try {
            CDNS::CdnsReader r(is); bool eof = false; size_t got = 0; int ends = 0;
            for (size_t call = 0; call < s.rf.blocks.size() + 4; call++) {
                try { CDNS::CdnsBlockRead b = r.read_block(eof); if (eof) { out.push_back({"end-not-sticky|clean-eof|" + rel, where + ": read_block call #" + std::to_string(call + 1) + " reported a clean end of file (eof = true) on a truncated file after " + std::to_string(ends) + " end-of-input errors"}); break; } got++;
                      if (got > expect_blocks) { out.push_back({"end-not-sticky|extra-block|" + rel, where + ": read_block returned block #" + std::to_string(got) + " although only " + std::to_string(expect_blocks) + " are complete"}); break; } }
                catch (CDNS::CdnsDecoderEnd&) { ends++; }
                catch (std::exception& e) { if (ends > 0) { out.push_back({"end-not-sticky|other-error|" + rel, where + ": after an end-of-input error the next read_block failed differently: " + e.what()}); } break; }
            }
        } catch (std::exception&) {}
    }
}

// A cut read is followed by a complete read of a small valid file (unknown members with nested values, read in the same thread): whatever the
// failed read left behind - in the reader, the decoder, or anything they share - must not change what the next, independent read returns.
static const Seed* g_canary = nullptr;
// Two readers alive at the same time on one thread - one over the full file, one over the prefix - advanced in turns (the natural way to compare a
// prefix with its file block by block): each must return what it returns when it is the only reader. Decoders are independent instances; whatever
// they share (a hoisted window, a cached cursor) shows here and nowhere in one-reader-at-a-time use.
static uint64_t g_lockstep_runs = 0;
static void check_lockstep(const Seed& s, size_t n, std::vector<V>& out) {
    g_lockstep_runs++;
    std::string pre = s.bytes.substr(0, n); size_t expect_blocks = 0; for (auto& b : s.rf.blocks) if (b.end <= n) expect_blocks++;
    std::string where = s.name + " prefix " + std::to_string(n) + "/" + std::to_string(s.bytes.size()) + " read in turns with the full file";
    std::istringstream isf(s.bytes), isp(pre), isc(g_canary ? g_canary->bytes : std::string());
    try {
        std::unique_ptr<CDNS::CdnsReader> rc; if (g_canary) rc.reset(new CDNS::CdnsReader(isc));   // a third reader over a different file: opened first, read after the other two
        CDNS::CdnsReader rf(isf); CDNS::CdnsReader rp(isp); bool eof_f = false, eof_p = false, done_f = false, done_p = false; size_t got_f = 0, got_p = 0; std::string end_p;
        for (size_t turn = 0; turn < s.rf.blocks.size() + 2 && !(done_f && done_p); turn++) {
            if (!done_f) { CDNS::CdnsBlockRead b = rf.read_block(eof_f); if (eof_f) done_f = true; else { if (got_f >= s.lib_blocks.size() || lib::block_dump(b) != s.lib_blocks[got_f]) { out.push_back({"lockstep|full-file-reader-disturbed", where + ": block " + std::to_string(got_f) + " of the FULL file differs from what a lone reader returns"}); return; } got_f++; } }
            if (!done_p) { try { CDNS::CdnsBlockRead b = rp.read_block(eof_p); if (eof_p) { done_p = true; end_p = "eof"; } else { if (got_p >= expect_blocks) { out.push_back({"lockstep|fabricated-block", where + ": the prefix reader returned block #" + std::to_string(got_p + 1) + " although only " + std::to_string(expect_blocks) + " are complete"}); return; }
                                 if (lib::block_dump(b) != s.lib_blocks[got_p]) { out.push_back({"lockstep|block-differs", where + ": block " + std::to_string(got_p) + " of the prefix differs from the same block of the full file"}); return; } got_p++; } }
                           catch (CDNS::CdnsDecoderEnd&) { done_p = true; end_p = "end"; } }
        }
        if (rc) { std::vector<std::string> cb; std::string cend; try { bool e = false; for (;;) { CDNS::CdnsBlockRead b = rc->read_block(e); if (e) { cend = "eof"; break; } cb.push_back(lib::block_dump(b)); if (cb.size() > g_canary->lib_blocks.size()) break; } } catch (std::exception& x) { cend = x.what(); }
                  if (cend != "eof" || cb != g_canary->lib_blocks) out.push_back({"lockstep|third-reader-disturbed", where + ": a reader over another valid file (" + g_canary->name + "), opened before the two and read after them, returns " + std::to_string(cb.size()) + " blocks and ends with " + cend}); }
        if (got_f != s.lib_blocks.size() || !done_f) out.push_back({"lockstep|full-file-reader-disturbed", where + ": the full-file reader returned " + std::to_string(got_f) + " of " + std::to_string(s.lib_blocks.size()) + " blocks"});
        if (got_p != expect_blocks) out.push_back({"lockstep|missing-block", where + ": the prefix reader returned " + std::to_string(got_p) + " blocks, " + std::to_string(expect_blocks) + " are complete"});
        else if (n < s.bytes.size() && end_p != "end") out.push_back({"lockstep|no-end-of-input", where + ": after the complete blocks expected CdnsDecoderEnd, got " + (end_p.empty() ? std::string("nothing") : end_p)});
    } catch (std::exception& e) { out.push_back({"lockstep|wrong-error", where + ": " + e.what()}); }
}
static void check_prefix(const Seed& s, size_t n, int stream_kind, std::vector<V>& out) {
    check_prefix0(s, n, stream_kind, out);
    if (stream_kind == 0 && n >= s.rf.header_end && s.lib_error.empty() && (n % W <= 1 || W - n % W <= 1 || n + 1 >= s.bytes.size() || std::any_of(s.rf.blocks.begin(), s.rf.blocks.end(), [&](const auto& b) { return b.end == n || b.end == n + 1; }))) check_lockstep(s, n, out);
    if (!g_canary || n == s.bytes.size()) return;
    lib::LibFile lf = lib::read_bytes(g_canary->bytes);
    if (lf.end != "eof" || lf.blocks != g_canary->lib_blocks || lf.preamble != g_canary->lib_preamble)
        out.push_back({"stateful-after-cut-read", "after reading " + s.name + " cut at " + std::to_string(n) + ", a complete valid file (" + g_canary->name + ") is read differently: " + std::to_string(lf.blocks.size()) + " blocks, end=" + lf.end});
}

// flat streams: n one-byte items; every op must return exactly n values, then CdnsDecoderEnd
static void check_flat(size_t n, int op, std::vector<V>& out) {
    std::string s(n, 0);
    for (size_t i = 0; i < n; i++) switch (op) { case 0: case 1: case 6: s[i] = (char)(1 + i % 23); break; case 2: s[i] = (char)(0x20 + i % 24); break; case 3: s[i] = (i & 1) ? (char)0xf5 : (char)0xf4; break; case 4: s[i] = (char)0xff; break; case 5: s[i] = (char)0x40; break; }
    std::istringstream is(s); CDNS::CdnsDecoder d(is); size_t got = 0; std::string end; static const char* on[] = {"read_unsigned", "peek_type+read_integer", "read_negative", "read_bool", "read_break", "read_bytestring", "skip_item"};
    std::string rel = n % W == 0 ? "n=k*65535" : "other";
    try {
        for (size_t i = 0; i <= n + 3; i++) {
            switch (op) {
            case 0: { uint64_t v = d.read_unsigned(); if (i < n && v != 1 + i % 23) { out.push_back({std::string("flat-wrong-value|") + on[op], "value " + std::to_string(i) + " of " + std::to_string(n)}); return; } break; }
            case 1: { d.peek_type(); int64_t v = d.read_integer(); if (i < n && v != (int64_t)(1 + i % 23)) { out.push_back({std::string("flat-wrong-value|") + on[op], "value " + std::to_string(i)}); return; } break; }
            case 2: { int64_t v = d.read_negative(); if (i < n && v != -1 - (int64_t)(i % 24)) { out.push_back({std::string("flat-wrong-value|") + on[op], "value " + std::to_string(i)}); return; } break; }
            case 3: { bool b = d.read_bool(); if (i < n && b != (bool)(i & 1)) { out.push_back({std::string("flat-wrong-value|") + on[op], "value " + std::to_string(i)}); return; } break; }
            case 4: d.read_break(); break; case 5: if (!d.read_bytestring().empty()) { out.push_back({std::string("flat-wrong-value|") + on[op], "non-empty"}); return; } break; case 6: d.skip_item(); break;
            }
            got++;
        }
        end = "none";
    } catch (CDNS::CdnsDecoderEnd&) { end = "end"; } catch (std::exception& e) { end = std::string("exc:") + e.what(); }
    if (got != n || end != "end") out.push_back({std::string("flat|") + on[op] + "|" + rel, std::string(on[op]) + " on a stream of " + std::to_string(n) + " one-byte items returned " + std::to_string(got) + " values then " + end});
}

static void check_unreadable(int kind, int op, std::vector<V>& out) {
    std::string p = g_dir; // a directory
    std::ifstream f; if (kind == 1) f.open(p, std::ios::binary); if (kind == 2) { f.open(g_dir + "/does-not-exist", std::ios::binary); }
    static const char* kn[] = {"never-opened", "directory", "missing-file"};
    try {
        if (op == 7) { CDNS::CdnsReader r(f); out.push_back({std::string("unreadable-stream|CdnsReader|") + kn[kind], "CdnsReader constructed from an unreadable stream"}); return; }
        CDNS::CdnsDecoder d(f); bool indef;
        switch (op) { case 0: d.peek_type(); break; case 1: d.read_unsigned(); break; case 2: d.read_integer(); break; case 3: d.read_bool(); break; case 4: d.read_bytestring(); break; case 5: d.read_array_start(indef); break; case 6: d.skip_item(); break; }
        out.push_back({std::string("unreadable-stream|op") + std::to_string(op) + "|" + kn[kind], std::string("decoder returned a value from a stream that cannot be read (") + kn[kind] + ")"});
    } catch (CDNS::CdnsDecoderEnd&) {
    } catch (std::exception& e) {
        // "reports end-of-input": a caller that treats CdnsDecoderEnd as the regular end of its input loop must see exactly that, also for a stream that never delivered a byte
        out.push_back({std::string("unreadable-stream|wrong-error-kind|") + kn[kind], std::string("a stream that cannot be read (") + kn[kind] + ") is reported as '" + e.what() + "' instead of end-of-input (operation " + std::to_string(op) + ")"});
    }
}

// =========================================================================================== rewrite (C08)
static std::vector<Node> unknown_values() {
    std::vector<Node> v = {mk_uint(7), mk_nint(1000), mk_tstr("unknown"), mk_bstr(std::string(30, 'z')), mk_array(), mk_map(), mk_array({mk_uint(1), mk_array({mk_tstr("n")})}),
                           mk_map({mk_uint(0), mk_map({mk_nint(0), mk_bool(false)})}), mk_tag(1, mk_uint(1363896240)), mk_tag(32, mk_array({mk_tstr("u")})),
                           mk_float(25, 0x3c00), mk_float(26, 0x47c35000), mk_float(27, 0x3ff199999999999aULL), mk_simple(22), mk_bool(true),
                           mk_simple(32), mk_simple(255), mk_simple(0), mk_simple(23), mk_array({mk_simple(100), mk_uint(1)}), mk_tag(1, mk_simple(200)), mk_tag(0x100000000ULL, mk_float(25, 0x7e00))};   // two-byte simple values f8 NN, also nested
    { Node a = mk_array({mk_uint(1), mk_uint(2)}); a.indef = true; v.push_back(a); }
    { Node m = mk_map({mk_tstr("k"), mk_uint(2)}); m.indef = true; v.push_back(m); }
    { Node s; s.major = 3; s.indef = true; s.ai = 31; s.kids = {mk_tstr("ab"), mk_tstr("c")}; s.bytes = "abc"; v.push_back(s); }
    { Node d = mk_uint(0); for (int i = 0; i < 6; i++) d = (i & 1) ? mk_map({mk_uint(i), d}) : mk_array({d}); v.push_back(d); }
    // deep nests (a skipping decoder's work stack grows at 8 / 16 / 32 / 64 entries): definite arrays, definite maps, alternating definite / indefinite
    for (int depth : {9, 17, 33, 70}) { Node a = mk_uint(1), m = mk_uint(1), x = mk_uint(1); for (int i = 0; i < depth; i++) { a = mk_array({a, mk_uint(i)}); m = mk_map({mk_uint(i), m}); Node y = mk_array({x}); y.indef = i & 1; x = y; } v.push_back(a); v.push_back(m); v.push_back(x); }
    return v;
}

struct Rw { std::string desc; std::string bytes; };

// all single rewrites of the tree; calls f(desc, bytes) for each
static void single_rewrites(const Node& root, bool thorough, const std::function<void(const std::string&, const std::string&)>& f) {
    size_t count = 0; visit(root, [&](const Node&) { count++; });
    auto values = unknown_values(); static const int64_t keys[] = {24, 99, 1000, -9, -100};
    size_t vi = 0;
    for (size_t i = 0; i < count; i++) {
        // every rewrite works on a fresh copy of the tree (editing kids invalidates descendants)
        Node work = root; Node* np = nullptr; { size_t k = 0; visit(work, [&](Node& x) { if (k++ == i) np = &x; }); }
        const Node saved = *np; std::string at = "@" + std::to_string(i) + ":m" + std::to_string(saved.major);
        auto emit_ = [&](const std::string& d) { f(d + at, encode(work)); work = root; size_t k = 0; visit(work, [&](Node& x) { if (k++ == i) np = &x; }); };
#define n (*np)
        // definite <-> indefinite
        if (n.major == 4 || n.major == 5) { n.indef = !n.indef; emit_(saved.indef ? "to-definite" : "to-indefinite"); }
        if (n.major == 2 || n.major == 3) {
            if (!n.indef) {
                size_t L = n.bytes.size(); std::vector<std::vector<size_t>> cuts = {{L}};
                if (L == 0) cuts = {{}, {0}}; if (L >= 2) { cuts.push_back({L / 2, L - L / 2}); cuts.push_back({1, L - 1}); cuts.push_back({0, L, 0}); }
                if (L >= 2 && L <= 8) cuts.push_back(std::vector<size_t>(L, 1));
                for (auto& c : cuts) { n.indef = true; n.kids.clear(); size_t p = 0; for (size_t l : c) { Node ch = n.major == 2 ? mk_bstr(saved.bytes.substr(p, l)) : mk_tstr(saved.bytes.substr(p, l)); p += l; n.kids.push_back(ch); } emit_("chunk" + std::to_string(c.size())); }
            }
        }
        // head widening
        if (n.major != 7 && !n.indef) { uint64_t arg = (n.major == 2 || n.major == 3) ? n.bytes.size() : (n.major == 4 || n.major == 5) ? n.count() : n.arg;
            for (int ai = std::max(24, min_ai(arg) + (min_ai(arg) >= 24 ? 1 : 0)); ai <= 27; ai++) { if (ai <= min_ai(arg) && min_ai(arg) >= 24) continue; n.ai = ai; emit_("widen" + std::to_string(ai)); } }
        // map member permutations and unknown members
        if (n.major == 5) {
            size_t m = n.kids.size() / 2;
            auto set_order = [&](const std::vector<size_t>& ord) { n.kids.clear(); for (size_t k : ord) { n.kids.push_back(saved.kids[2 * k]); n.kids.push_back(saved.kids[2 * k + 1]); } };
            if (m >= 2) {
                std::vector<size_t> ord(m); for (size_t k = 0; k < m; k++) ord[k] = m - 1 - k; set_order(ord); emit_("reverse");
                for (size_t k = 0; k < m; k++) ord[k] = (k + 1) % m; set_order(ord); emit_("rotate");
                for (size_t sw = 0; sw + 1 < m; sw++) { for (size_t k = 0; k < m; k++) ord[k] = k; std::swap(ord[sw], ord[sw + 1]); set_order(ord); emit_("swap" + std::to_string(sw)); }
                if (m <= 4 && thorough) { for (size_t k = 0; k < m; k++) ord[k] = k; while (std::next_permutation(ord.begin(), ord.end())) { set_order(ord); emit_("perm"); } }
            }
            std::vector<size_t> positions = {0, m / 2, m}; if (m == 0) positions = {0}; if (m == 1) positions = {0, 1};
            for (size_t pos : positions) {
                size_t nvals = thorough ? values.size() : 3;
                for (size_t t = 0; t < nvals; t++) {
                    const Node& val = values[(vi++) % values.size()]; int64_t key = keys[(vi / 3) % 5];
                    n.kids.insert(n.kids.begin() + 2 * pos, {mk_int(key), val});
                    emit_("unknown-key" + std::to_string(key) + "-val-m" + std::to_string(val.major) + (val.indef ? "i" : "") + "-pos" + std::to_string(pos));
                }
            }
        }
    }
}

#undef n
// ---- compact rewrite operations for pairwise composition (thorough tier)
struct RwOp { size_t node; int kind; };   // 0 toggle definite/indefinite, 1 chunk string in two, 2 widen head to 8 bytes, 3 reverse map, 4 unknown member (nested value) in front, 5 unknown member (indefinite value) at the end
static const char* RWN[] = {"toggle-indef", "chunk2", "widen27", "reverse", "unknown-front", "unknown-end"};
static std::vector<RwOp> enumerate_ops(const Node& root) {
    std::vector<RwOp> ops; size_t i = 0;
    visit(root, [&](const Node& x) {
        if (x.major == 4 || x.major == 5) ops.push_back({i, 0});
        if ((x.major == 2 || x.major == 3) && !x.indef) ops.push_back({i, 1});
        if (x.major != 7 && !x.indef) ops.push_back({i, 2});
        if (x.major == 5 && x.kids.size() >= 4) ops.push_back({i, 3});
        if (x.major == 5) { ops.push_back({i, 4}); ops.push_back({i, 5}); }
        i++; });
    return ops;
}
static void apply_op(Node& root, const RwOp& op) {
    Node* np = nullptr; size_t k = 0; visit(root, [&](Node& x) { if (k++ == op.node) np = &x; }); Node& x = *np;
    switch (op.kind) {
    case 0: x.indef = !x.indef; break;
    case 1: { Node a = x, b = x; size_t L = x.bytes.size(); a.bytes = x.bytes.substr(0, L / 2); b.bytes = x.bytes.substr(L / 2); a.kids.clear(); b.kids.clear(); a.ai = min_ai(a.bytes.size()); b.ai = min_ai(b.bytes.size()); x.indef = true; x.kids = {a, b}; break; }
    case 2: x.ai = 27; break;
    case 3: { std::vector<Node> kk; for (size_t j = x.kids.size(); j >= 2; j -= 2) { kk.push_back(x.kids[j - 2]); kk.push_back(x.kids[j - 1]); } x.kids = kk; break; }
    case 4: x.kids.insert(x.kids.begin(), {mk_uint(99), mk_array({mk_uint(1), mk_map({mk_uint(2), mk_tag(1, mk_bstr("v"))})})}); break;
    case 5: { Node v = mk_array({mk_float(26, 7), mk_tstr("u")}); v.indef = true; x.kids.insert(x.kids.end(), {mk_nint(41), v}); break; }
    }
}
static void pair_rewrites(const Node& root, const std::function<void(const std::string&, const std::string&)>& f) {
    auto ops = enumerate_ops(root);
    for (size_t a = 0; a < ops.size(); a++) for (size_t b = a + 1; b < ops.size(); b++) {
        if (ops[a].node == ops[b].node) continue;
        Node w = root; apply_op(w, ops[b]); apply_op(w, ops[a]);   // higher pre-order index first: the lower index stays valid
        f(std::string("pair-") + RWN[ops[a].kind] + "@" + std::to_string(ops[a].node) + "+" + RWN[ops[b].kind] + "@" + std::to_string(ops[b].node), encode(w));
    }
}
static void chunk_all(Node& n) { for (auto& k : n.kids) chunk_all(k); if ((n.major == 2 || n.major == 3) && !n.indef) { Node c = n; n.indef = true; n.kids = {c}; } }
static void global_rewrites(const Node& root, const std::function<void(const std::string&, const std::string&)>& f) {
    auto values = unknown_values();
    { Node w = root; visit(w, [](Node& n) { if (n.major == 4 || n.major == 5) n.indef = true; }); f("all-containers-indefinite", encode(w)); }
    { Node w = root; visit(w, [](Node& n) { if (n.major == 4 || n.major == 5) n.indef = false; }); f("all-containers-definite", encode(w)); }
    { Node w = root; visit(w, [](Node& n) { if (n.major != 7 && !n.indef) n.ai = 27; }); f("all-heads-widest", encode(w)); }
    { Node w = root; chunk_all(w); f("all-strings-chunked", encode(w)); }
    { Node w = root; visit(w, [](Node& n) { if (n.major == 5) { std::vector<Node> k; for (size_t i = n.kids.size(); i >= 2; i -= 2) { k.push_back(n.kids[i - 2]); k.push_back(n.kids[i - 1]); } n.kids = k; } }); f("all-maps-reversed", encode(w)); }
    // every map kind x every unknown key that is congruent to a known key modulo 2^8 / 2^16 / 2^32 / 2^64 (truncating casts), as uint and as text value
    { static const struct { int major; uint64_t arg; const char* name; } KEYS[] = {{0, 256, "256"}, {0, 257, "257"}, {0, 258, "258"}, {0, 259, "259"}, {0, 260, "260"}, {0, 65536, "65536"}, {0, 65537, "65537"}, {0, 65539, "65539"}, {0, 0x100000000ULL, "2^32"}, {0, 0x100000001ULL, "2^32+1"}, {0, 0x100000003ULL, "2^32+3"},
          {1, 255, "-256"}, {1, 254, "-255"}, {1, 253, "-254"}, {1, 256, "-257"}, {1, 65535, "-65536"}, {1, 0xffffffffULL, "-2^32"}, {0, 0x7fffffffffffffffULL, "2^63-1"}, {1, 0x7fffffffffffffffULL, "-2^63"},
          {0, 0xffffffffffffffffULL, "2^64-1"}, {0, 0xfffffffffffffffeULL, "2^64-2"}, {0, 0xfffffffffffffffdULL, "2^64-3"}, {0, 0x8000000000000000ULL, "2^63"}, {1, 0xffffffffffffffffULL, "-2^64"}, {1, 0x8000000000000000ULL, "-2^63-1"}};
      for (auto& K : KEYS) for (int vt = 0; vt < 2; vt++) { Node w = root; std::vector<Node*> maps; visit(w, [&](Node& n) { if (n.major == 5) maps.push_back(&n); }); Node key = K.major == 0 ? mk_uint(K.arg) : mk_nint(K.arg);
          for (auto it = maps.rbegin(); it != maps.rend(); ++it) (*it)->kids.insert((*it)->kids.end(), {key, vt ? mk_tstr("text") : mk_uint(7)}); f(std::string("unknown-key-class-") + K.name + (vt ? "-text" : "-uint"), encode(w)); } }
    for (size_t v = 0; v < values.size(); v++) { Node w = root; std::vector<Node*> maps; visit(w, [&](Node& n) { if (n.major == 5) maps.push_back(&n); });
        for (auto it = maps.rbegin(); it != maps.rend(); ++it) (*it)->kids.insert((*it)->kids.begin(), {mk_int(v & 1 ? -77 : 77), values[v]}); f("unknown-in-every-map-val" + std::to_string(v), encode(w)); }
    { Node w = root; visit(w, [](Node& n) { if (n.major == 4 || n.major == 5) n.indef = true; if (n.major <= 1) n.ai = 27; }); chunk_all(w); f("everything-at-once", encode(w)); }
    // every container indefinite + an unknown preamble member whose byte-string value pads the file so that the BREAK of one chosen container is the first byte of a
    // decoder window (offset k * 65535): the outer file array, the block array, and a spread of the others (the break that no caller peeks at before reading it)
    { Node w = root; visit(w, [](Node& n) { if (n.major == 4 || n.major == 5) n.indef = true; });
      auto breaks = [](const std::string& enc) { Node r = parse_exact(enc); std::vector<size_t> v; visit((const Node&)r, [&](const Node& n) { if ((n.major == 4 || n.major == 5) && n.indef) v.push_back(n.end - 1); }); return v; };
      auto padded = [&](size_t pad) { Node x = w; x.kids[1].kids.insert(x.kids[1].kids.begin(), {mk_int(-77), mk_bstr(std::string(pad, '\x5a'))}); return encode(x); };
      std::vector<size_t> b0 = breaks(padded(W)); std::set<size_t> pick = {0, 1}; { size_t c = 0; visit((const Node&)w, [&](const Node& n) { if ((n.major == 4 || n.major == 5)) { if (&n == &w.kids[2]) pick.insert(c); c++; } }); }
      for (size_t k = 2; k < b0.size(); k += std::max<size_t>(1, b0.size() / 6)) pick.insert(k);
      for (size_t k : pick) { if (k >= b0.size()) continue; size_t pad = W; std::string enc;
          for (int it = 0; it < 8; it++) { enc = padded(pad); std::vector<size_t> br = breaks(enc); if (br.size() != b0.size()) break; size_t off = br[k] % W; if (off == 0) break; pad += W - off; if (pad > 2 * W) pad -= W; }
          std::vector<size_t> br = breaks(enc); if (br.size() != b0.size() || br[k] % W != 0 || (unsigned char)enc[br[k]] != 0xff) continue;
          f("indefinite-break-on-window-" + std::to_string(k), enc); } }
}

// =========================================================================================== mutate (C03)
static std::string bomb(int kind, size_t depth) {
    std::string s;
    switch (kind) {
    case 0: s.assign(depth, (char)0x81); s.push_back(0); break;                         // [[[...0...]]]
    case 1: for (size_t i = 0; i < depth; i++) { s.push_back((char)0xa1); s.push_back(0); } s.push_back(0); break;  // {0:{0:...}}
    case 2: s.assign(depth, (char)0x9f); s.push_back(0); s.append(depth, (char)0xff); break;
    case 3: s.assign(depth, (char)0xc1); s.push_back(0); break;                          // tag(tag(...))
    case 4: s.assign(depth, (char)0xbf); break;                                          // unterminated indefinite maps
    }
    return s;
}

// seed with an unknown key (200) inserted at the front of map node #idx whose value is a nesting bomb
static std::string make_mapbomb(const std::string& b, size_t idx, int k, size_t d) {
    Node root = parse_exact(b); Node* np = nullptr; { size_t c = 0; visit(root, [&](Node& x) { if (c++ == idx) np = &x; }); }
    if (!np || np->major != 5) return "";
    std::string payload = bomb(k, d);
    np->kids.insert(np->kids.begin(), {mk_uint(200), mk_bstr(payload)});
    std::string enc = encode(root);
    std::string head; put_head(head, 2, min_ai(payload.size()), payload.size());
    size_t p = enc.find(head + payload.substr(0, 16)); if (p == std::string::npos) return "";
    enc.erase(p, head.size());   // drop the string head: the bomb bytes become the value itself
    return enc;
}

// a valid one-block file whose block holds n address-event entries that differ in their address only and all carry the same transport flags:
// reading it must take time proportional to its size (a hash function that ignores what the entries differ in makes it quadratic)
static std::string make_manyaec(size_t n, int with_flags) {
    Node root = parse_exact(seeds::small()); Node blk = root.kids[2].kids[0]; std::vector<Node> kept;
    for (size_t i = 0; i + 1 < blk.kids.size(); i += 2) if (blk.kids[i].is_uint() && blk.kids[i].arg == 0) { kept.push_back(blk.kids[i]); kept.push_back(blk.kids[i + 1]); }   // block preamble only
    std::vector<Node> ips, aecs; for (size_t i = 0; i < n; i++) { std::string a4(4, 0); a4[0] = 10; a4[1] = (char)(i >> 16); a4[2] = (char)(i >> 8); a4[3] = (char)i; ips.push_back(mk_bstr(a4));
        std::vector<Node> kv = {mk_uint(0), mk_uint(1), mk_uint(2), mk_uint(i)}; if (with_flags) { kv.push_back(mk_uint(3)); kv.push_back(mk_uint(2)); } kv.push_back(mk_uint(4)); kv.push_back(mk_uint(1 + i % 7)); aecs.push_back(mk_map(kv)); }
    kept.push_back(mk_uint(2)); kept.push_back(mk_map({mk_uint(0), mk_array(ips)})); kept.push_back(mk_uint(4)); kept.push_back(mk_array(aecs));
    blk.kids = kept; blk.indef = false; blk.arg = kept.size() / 2; blk.ai = min_ai(blk.arg); root.kids[2].kids = {blk}; root.kids[2].indef = true;
    return encode(root);
}

int main(int argc, char** argv) {
    Args a = Args::parse(argc, argv);
    g_dir = scratch_dir();
    Result total; bool T = a.thorough();
    auto done = [&](int rc) { a.finish(total); rm_rf(g_dir); return rc; };

    if (a.mode == "prefix") {
        g_seed_errors_are_findings = true;
        std::vector<Seed> seeds;
        seeds.push_back(mk_seed("small", seeds::small()));
        seeds.push_back(mk_seed("mid", seeds::mid()));
        seeds.push_back(mk_seed("big", seeds::big()));
        for (size_t k = 1; k <= 3; k++) seeds.push_back(mk_seed("exact" + std::to_string(k), seeds::exact(k * W)));
        // the same data with a definite-length array of blocks (valid RFC 8618, other writers produce it): the reader counts blocks instead of waiting for the break
        for (const char* base : {"small", "mid"}) { Node root = parse_exact(std::string(base) == "small" ? seeds::small() : seeds::mid()); root.kids[2].indef = false; seeds.push_back(mk_seed(std::string(base) + "-definite", encode(root))); }
        // an unknown (implementation-specific) member with a string value as the LAST member of every block map (and of the file preamble): a cut inside it
        // is a cut inside the block; the value is skipped, not stored, so nothing downstream would notice a skip that stops early
        for (int def = 0; def < 2; def++) for (size_t len : {(size_t)300, (size_t)70000}) for (int text = 0; text < 2; text++) { if (len == 70000 && (text || !T) && def) continue;
            Node root = parse_exact(seeds::small()); root.kids[2].indef = !def; Node val = text ? mk_tstr(std::string(len, 'u')) : mk_bstr(std::string(len, '\x55'));
            root.kids[1].kids.insert(root.kids[1].kids.end(), {mk_int(-10), val}); for (auto& blk : root.kids[2].kids) blk.kids.insert(blk.kids.end(), {mk_int(-10), val});
            seeds.push_back(mk_seed(std::string("small-unknown-tail-") + (def ? "definite-" : "") + (text ? "t" : "b") + std::to_string(len), encode(root))); }
        // the same with NESTED values (arrays in arrays, a map, indefinite-length inner containers): a cut inside the value interrupts the skip with open containers
        for (int indef = 0; indef < 2; indef++) {
            Node root = parse_exact(seeds::small()); Node in1 = mk_array({mk_uint(1), mk_uint(2), mk_uint(3)}), in2 = mk_array({mk_uint(4), mk_tstr("five")}), in3 = mk_map({mk_uint(1), mk_array({mk_uint(6), mk_bstr("seven")})});
            if (indef) { in1.indef = true; in3.indef = true; } Node val = mk_array({in1, in2, in3}); if (indef) val.indef = true;
            root.kids[1].kids.insert(root.kids[1].kids.end(), {mk_int(-10), val}); for (auto& blk : root.kids[2].kids) blk.kids.insert(blk.kids.end(), {mk_int(-10), val});
            seeds.push_back(mk_seed(std::string("small-unknown-nested-tail-") + (indef ? "indefinite" : "definite"), encode(root))); }
        // ... and with multi-byte SCALAR values (8-byte unsigned, 4-byte negative, double, tagged 4-byte unsigned, 2-byte simple): a cut inside the argument bytes of a skipped head
        { Node root = parse_exact(seeds::small()); Node u8 = mk_uint(0x0102030405060708ULL), n4 = mk_nint(0x01020304), f8 = mk_float(27, 0x3ff199999999999aULL), tg = mk_tag(0x010203, mk_uint(0x0a0b0c0d)), sv = mk_simple(200);
          root.kids[2].indef = true; int k = 0; for (const Node& val : {u8, n4, f8, tg, sv}) { root.kids[1].kids.insert(root.kids[1].kids.end(), {mk_int(-10 - k), val}); for (auto& blk : root.kids[2].kids) blk.kids.insert(blk.kids.end(), {mk_int(-10 - k), val}); k++; }
          seeds.push_back(mk_seed("small-unknown-scalar-tails", encode(root)));
          // the same members behind a 70000-byte unknown string, so that the scalars lie behind the first window refill and one block ends near it
          Node r2 = root; r2.kids[2].kids[0].kids.insert(r2.kids[2].kids[0].kids.begin(), {mk_int(-30), mk_bstr(std::string(W - r2.kids[2].kids[0].begin - 40, '\x55'))}); seeds.push_back(mk_seed("mid-unknown-scalar-tails", encode(r2))); }
        // files from another encoder: every array and map in indefinite-length form, padded so that the BREAK of one chosen array lies exactly on a multiple of the
        // decoder window (a break that is the first byte of a refill). One file per chosen array (block array, tables, record arrays, index lists ...).
        { seeds::Opt o0; o0.sets = {seeds::PS(10000, 1000000, 0)}; o0.blocks = 3; o0.per_block = 2;
          auto all_indef = [](const std::string& bytes) { Node root = parse_exact(bytes); visit(root, [](Node& n) { if (n.major == 4 || n.major == 5) n.indef = true; }); return encode(root); };
          auto array_breaks = [](const std::string& enc) { Node r = parse_exact(enc); std::vector<size_t> v; visit((const Node&)r, [&](const Node& n) { if (n.major == 4 && n.indef) v.push_back(n.end - 1); }); return v; };
          std::vector<size_t> br0 = array_breaks(all_indef(seeds::make(o0))); size_t made = 0;
          for (size_t k = 0; k < br0.size() && made < (T ? 24 : 8); k += std::max<size_t>(1, br0.size() / (T ? 24 : 8))) {
              seeds::Opt o = o0; size_t pad = W; std::string enc;
              for (int it = 0; it < 8; it++) { o.pad_text.assign(pad, 'x'); enc = all_indef(seeds::make(o)); std::vector<size_t> br = array_breaks(enc); if (br.size() != br0.size()) break; size_t off = br[k] % W; if (off == 0) break; pad += W - off; if (pad > 2 * W) pad -= W; }
              std::vector<size_t> br = array_breaks(enc); if (br.size() != br0.size() || br[k] % W != 0 || (unsigned char)enc[br[k]] != 0xff) continue;
              seeds.push_back(mk_seed("indef-break-on-window-" + std::to_string(k), enc)); made++; }
          if (made == 0) { fprintf(stderr, "could not place any array break on a window boundary\n"); return done(2); } }
        // files whose first block end falls on / one before / one after a window boundary
        { std::string base = seeds::exact(W + 200, 2); RFile r = read_file(base); long d = (long)r.blocks[0].end - (long)W; for (int delta : {-1, 0, 1}) seeds.push_back(mk_seed("blockend" + std::to_string(delta), seeds::exact(W + 200 - d + delta, 2))); }
        for (auto& s : seeds) if (s.name.rfind("exact", 0) == 0 && s.bytes.size() % W != 0) { fprintf(stderr, "seed %s has size %zu\n", s.name.c_str(), s.bytes.size()); return done(2); }
        // n = |f|: the complete (valid) file must be read completely
        if (a.replay.empty() || slurp(a.replay).find("kind=fullread") != std::string::npos) { std::string only; if (!a.replay.empty()) { std::string rs = slurp(a.replay); size_t q = rs.find("seed="); only = rs.substr(q + 5, rs.find(';', q) == std::string::npos ? std::string::npos : rs.find(';', q) - q - 5); while (!only.empty() && isspace((unsigned char)only.back())) only.pop_back(); }
            for (auto& sd : seeds) if (!sd.lib_error.empty() && (only.empty() || only == sd.name)) total.violation("prefix|valid-file-not-read-completely|" + sd.name.substr(0, sd.name.find_last_of('-')), "seed " + sd.name + " (" + std::to_string(sd.bytes.size()) + " bytes, valid): " + sd.lib_error, "kind=fullread;seed=" + sd.name);
            if (!a.replay.empty()) return done(total.viol.empty() ? 0 : 1); }
        { std::vector<Seed> ok; for (auto& sd : seeds) if (sd.lib_error.empty()) ok.push_back(sd); seeds = ok; }
        for (auto& sd : seeds) if (sd.name == "small-unknown-nested-tail-definite") g_canary = &sd;
        struct Task { int kind; size_t seed; size_t lo, hi; int p; };
        std::vector<Task> tasks;
        std::map<size_t, std::vector<size_t>> points;
        for (size_t si = 0; si < seeds.size(); si++) { auto& s = seeds[si]; size_t N = s.bytes.size(); std::set<size_t> pts;
            if (N <= 8000) for (size_t n = 0; n <= N; n++) pts.insert(n);
            else { auto around = [&](size_t c, size_t r) { for (size_t n = (c > r ? c - r : 0); n <= c + r && n <= N; n++) pts.insert(n); };
                around(0, 48); around(N, 48); around(s.rf.header_end, 48); for (size_t k = W; k <= N + W; k += W) around(k, 48);
                for (auto& b : s.rf.blocks) if (T || b.end % 7 == 0 || &b == &s.rf.blocks.front() || &b == &s.rf.blocks.back()) around(b.end, T ? 48 : 6);
                for (size_t n = 0; n <= N; n += (T ? 977 : 9973)) pts.insert(n); }
            points[si] = std::vector<size_t>(pts.begin(), pts.end());
            for (size_t i = 0; i < points[si].size(); i += 64) tasks.push_back({0, si, i, std::min(points[si].size(), i + 64), 0}); }
        for (size_t k = 0; k <= 3; k++) for (int d = -48; d <= 48; d++) { long n = (long)(k * W) + d; if (n >= 0) for (int op = 0; op < 7; op++) tasks.push_back({1, 0, (size_t)n, 0, op}); }
        for (int kind = 0; kind < 3; kind++) for (int op = 0; op < 8; op++) tasks.push_back({2, 0, 0, 0, kind * 8 + op});
        if (!a.replay.empty()) {
            std::string s = slurp(a.replay); std::map<std::string, std::string> kv; size_t p = 0;
            while (p < s.size()) { size_t e = s.find(';', p); if (e == std::string::npos) e = s.size(); std::string part = s.substr(p, e - p); size_t q = part.find('='); if (q != std::string::npos) kv[part.substr(0, q)] = part.substr(q + 1); p = e + 1; }
            Pool rp(1, 120);
            rp.run(1, [&](uint64_t, Result& R) { std::vector<V> out;
                if (kv["kind"] == "prefix") { for (auto& sd : seeds) if (sd.name == kv["seed"]) check_prefix(sd, strtoull(kv["n"].c_str(), nullptr, 10), atoi(kv["stream"].c_str()), out); }
                else if (kv["kind"] == "flat") check_flat(strtoull(kv["n"].c_str(), nullptr, 10), atoi(kv["op"].c_str()), out);
                else check_unreadable(atoi(kv["stream"].c_str()), atoi(kv["op"].c_str()), out);
                for (auto& v : out) R.violation("prefix|" + v.key, v.what, s); },
                [&](uint64_t, const std::string& d, Result& R) { R.violation("prefix|" + crash_key(d), d.substr(0, 1500), s); }, total);
            return done(total.viol.empty() ? 0 : 1);
        }
        Pool pool(a.jobs, 300);
        pool.run(tasks.size(), [&](uint64_t ti, Result& R) {
            const Task& t = tasks[ti]; std::vector<V> out;
            if (a.expired()) { R.deadline_hit = true; return; }
            if (t.kind == 0) {
                auto& pts = points[t.seed];
                for (size_t i = t.lo; i < t.hi; i++) for (int sk = 0; sk < 2; sk++) {
                    if (sk == 1 && !(pts[i] % W <= 1 || W - pts[i] % W <= 1 || pts[i] == seeds[t.seed].bytes.size() || i % 16 == 0)) continue;
                    std::string rep = "kind=prefix;seed=" + seeds[t.seed].name + ";n=" + std::to_string(pts[i]) + ";stream=" + std::to_string(sk);
                    set_note(rep); out.clear(); { uint64_t l0 = g_lockstep_runs; check_prefix(seeds[t.seed], pts[i], sk, out); if (g_lockstep_runs > l0) R.count("lockstep_runs", g_lockstep_runs - l0); } R.count("traces"); if (pts[i] > 0 && pts[i] < seeds[t.seed].bytes.size()) R.count("nontrivial");
                    for (auto& v : out) R.violation("prefix|" + v.key, v.what, rep);
                    R.outcome(out.empty() ? "prefix-ok" : "prefix-viol:" + out[0].key);
                }
                if (ti % 37 == 0) R.sample("seed=" + seeds[t.seed].name + " prefixes " + std::to_string(pts[t.lo]) + ".." + std::to_string(pts[t.hi - 1]));
            } else if (t.kind == 1) {
                std::string rep = "kind=flat;n=" + std::to_string(t.lo) + ";op=" + std::to_string(t.p);
                set_note(rep); check_flat(t.lo, t.p, out); R.count("traces"); R.count("nontrivial");
                for (auto& v : out) R.violation("prefix|" + v.key, v.what, rep);
                R.outcome(out.empty() ? "flat-ok" : "flat-viol");
            } else {
                std::string rep = "kind=unreadable;stream=" + std::to_string(t.p / 8) + ";op=" + std::to_string(t.p % 8);
                set_note(rep); check_unreadable(t.p / 8, t.p % 8, out); R.count("traces"); R.count("nontrivial");
                for (auto& v : out) R.violation("prefix|" + v.key, v.what, rep);
                R.outcome(out.empty() ? "unreadable-ok" : "unreadable-viol");
            }
        }, [&](uint64_t, const std::string& d, Result& R) { R.violation("prefix|" + crash_key(d), "crash: " + d.substr(0, 1500), pool.last_note); }, total);
        total.n["evaluations"] = total.n["traces"];
        std::string note = "seeds:"; for (auto& s : seeds) note += " " + s.name + "(" + std::to_string(s.bytes.size()) + "B," + std::to_string(s.rf.blocks.size()) + " blocks)"; total.notes.push_back(note);
        return done(0);
    }

    if (a.mode == "rewrite") {
        std::vector<std::pair<std::string, std::string>> seeds = {{"rich", seeds::rich()}, {"small", seeds::small()}, {"mid", seeds::mid()}};
        { seeds::Opt o; o.sets = {seeds::PS(10000, 1000, 3, true), seeds::PS(3, 1, 0)}; o.blocks = 2; o.per_block = 3; seeds.push_back({"alt", seeds::make(o)}); }
        if (!a.replay.empty()) {
            std::string s = slurp(a.replay); size_t p = s.find("orig="), q = s.find(";variant=");
            std::string orig = unhex(s.substr(p + 5, q - p - 5)), var = unhex(s.substr(q + 9));
            Pool rp(1, 120);
            std::string pz; { size_t z = s.find(";poison="); if (z != std::string::npos) { pz = unhex(s.substr(z + 8)); var = unhex(s.substr(q + 9, z - q - 9)); } }
            rp.run(1, [&](uint64_t, Result& R) { std::string d0 = lib::file_dump(lib::read_bytes(orig)), d1 = lib::file_dump(lib::read_bytes(var)); if (d0 != d1) R.violation("rewrite|replay", "reader output differs", s);
                if (!pz.empty()) { lib::read_bytes(pz); std::string d2 = lib::file_dump(lib::read_bytes(var)); if (d2 != d1) R.violation("rewrite|stateful-after-failed-read|replay", "decodes differently after a failed read", s); } },
                   [&](uint64_t, const std::string& d, Result& R) { R.violation("rewrite|" + crash_key(d), d.substr(0, 1500), s); }, total);
            return done(total.viol.empty() ? 0 : 1);
        }
        // materialise rewrites per seed in the parent (cheap), check in workers
        struct Case { size_t seed; std::string desc, bytes; };
        std::vector<Case> cases; std::vector<std::string> orig_dump, orig_ref;
        for (size_t si = 0; si < seeds.size(); si++) {
            Node root = parse_exact(seeds[si].second);
            orig_dump.push_back(lib::file_dump(lib::read_bytes(seeds[si].second))); orig_ref.push_back(lib::file_dump(read_file(seeds[si].second)));
            if (orig_dump.back() != orig_ref.back()) { fprintf(stderr, "seed %s: library and reference disagree on the unmodified file\n", seeds[si].first.c_str()); return done(2); }
            auto add = [&](const std::string& d, const std::string& b) { cases.push_back({si, d, b}); };
            if (si < 2 || T) single_rewrites(root, T, add); else if (si == 3) single_rewrites(root, false, add);
            global_rewrites(root, add);
        }
        // pairs of local rewrites (thorough): kept as index triples and materialised lazily in the workers
        struct PairCase { size_t seed, a, b; }; std::vector<PairCase> pairs; std::vector<std::vector<RwOp>> seed_ops(seeds.size()); std::vector<Node> seed_trees;
        for (size_t si = 0; si < seeds.size(); si++) { seed_trees.push_back(parse_exact(seeds[si].second)); if (T && (si == 1 || si == 3)) { seed_ops[si] = enumerate_ops(seed_trees[si]); auto& o = seed_ops[si]; for (size_t x = 0; x < o.size(); x++) for (size_t y = x + 1; y < o.size(); y++) if (o[x].node != o[y].node) pairs.push_back({si, x, y}); } }
        // "poison" inputs: reads that fail in the middle of skipping a nested unknown value. Decoding must be a function of the input alone,
        // so a failed read immediately before (same thread, fresh reader object) must not change what the next file decodes to.
        std::vector<std::string> poison;
        { Node root = parse_exact(seeds[0].second); Node v = mk_array({mk_uint(1), mk_array({mk_uint(2), mk_map({mk_uint(5), mk_array({mk_uint(3), mk_tstr("abcdef")})})}), mk_uint(7)});
          Node vi = v; vi.indef = true; vi.kids[1].indef = true;
          for (const Node& val : {v, vi}) { Node r2 = root; Node& blk = r2.kids[2].kids[0]; blk.kids.insert(blk.kids.begin(), {mk_uint(100), val}); std::string whole = encode(r2), ev = encode(val); size_t pos = whole.find(ev);
              if (pos != std::string::npos) { poison.push_back(whole.substr(0, pos + ev.size() - 4)); poison.push_back(whole.substr(0, pos + 3)); } }
          { Node r2 = root; Node& blk = r2.kids[2].kids[0]; Node bad = mk_array({mk_uint(1), mk_uint(2)}); blk.kids.insert(blk.kids.begin(), {mk_uint(100), bad}); std::string whole = encode(r2); size_t pos = whole.find(encode(bad)); if (pos != std::string::npos) { whole[pos + 2] = (char)0x1c; poison.push_back(whole); } }  // reserved additional info inside a skipped value
          // sanity (in a child process, so that this process never performs a failing read before forking its workers)
          { fflush(stdout); fflush(stderr); pid_t cp = fork(); if (cp == 0) { for (auto& pz : poison) { lib::LibFile lf = lib::read_bytes(pz); if (lf.end == "eof") _exit(9); } _exit(0); } int st = 0; waitpid(cp, &st, 0); if (!WIFEXITED(st) || WEXITSTATUS(st) != 0) { fprintf(stderr, "poison input unexpectedly readable\n"); return done(2); } } }
        Pool pool(a.jobs, 120);
        // phase 1 (indices < N): plain reads; phase 2 (indices >= N): each read right after a failed read. Workers run indices in increasing
        // order, so no phase-1 read ever follows a failed read in its thread and every violation replays from its own case alone.
        size_t NC = cases.size(); size_t PCH = 256, NPT = (pairs.size() + PCH - 1) / PCH;
        pool.run(2 * NC + NPT, [&](uint64_t idx, Result& R) {
            if (a.expired()) { R.deadline_hit = true; return; }
            if (idx >= 2 * NC) {   // a chunk of pair cases (phase 1 semantics: plain read compared with the original)
                for (size_t pi = (idx - 2 * NC) * PCH; pi < std::min(pairs.size(), (idx - 2 * NC + 1) * PCH); pi++) {
                    const PairCase& pc = pairs[pi]; const RwOp& oa = seed_ops[pc.seed][pc.a]; const RwOp& ob = seed_ops[pc.seed][pc.b];
                    Node w = seed_trees[pc.seed]; apply_op(w, ob); apply_op(w, oa); std::string bytes = encode(w);
                    std::string desc = std::string("pair-") + RWN[oa.kind] + "@" + std::to_string(oa.node) + "+" + RWN[ob.kind] + "@" + std::to_string(ob.node);
                    std::string rep = "seed=" + seeds[pc.seed].first + ";rw=" + desc + ";orig=" + hex(seeds[pc.seed].second) + ";variant=" + hex(bytes); set_note(rep.substr(0, 7000));
                    std::string rd; try { rd = lib::file_dump(read_file(bytes)); } catch (std::exception& e) { rd = std::string("ref-rejects:") + e.what(); }
                    if (rd != orig_ref[pc.seed]) { R.count("generator_rejects"); R.notes.push_back("generator produced a non-equivalent file for " + desc); continue; }
                    std::string ld = lib::file_dump(lib::read_bytes(bytes)); R.count("traces"); R.count("nontrivial"); R.count("pair_cases");
                    std::string kind = std::string("pair|") + RWN[oa.kind] + "+" + RWN[ob.kind];
                    if (ld != orig_dump[pc.seed]) R.violation("rewrite|" + kind, "seed " + seeds[pc.seed].first + " " + desc + ": reader output differs from the original", rep);
                    R.outcome(kind + (ld != orig_dump[pc.seed] ? ":viol" : ":ok"));
                }
                return;
            }
            bool phase2 = idx >= NC; uint64_t i = phase2 ? idx - NC : idx;
            const Case& c = cases[i];
            std::string rep = "seed=" + seeds[c.seed].first + ";rw=" + c.desc + ";orig=" + hex(seeds[c.seed].second) + ";variant=" + hex(c.bytes);
            if (phase2) {
                std::string kind2 = c.desc.substr(0, c.desc.find('@')); if (kind2.rfind("unknown-key", 0) == 0) kind2 = "unknown-member";
                std::string ld0 = orig_dump[c.seed];
                for (size_t pz = 0; pz < poison.size(); pz++) { set_note((rep + ";poison=" + hex(poison[pz])).substr(0, 7000)); lib::read_bytes(poison[pz]); std::string again = lib::file_dump(lib::read_bytes(c.bytes)); R.count("traces"); R.count("nontrivial");
                    if (again != ld0) { R.violation("rewrite|stateful-after-failed-read|" + kind2, "seed " + seeds[c.seed].first + " " + c.desc + ": the file decodes differently right after a failed read of another input in the same thread (poison #" + std::to_string(pz) + ")", rep + ";poison=" + hex(poison[pz])); break; } }
                return;
            }
            set_note(rep.substr(0, 7000));
            // guard the generator: the independent reader must see the same data
            std::string rd; try { rd = lib::file_dump(read_file(c.bytes)); } catch (std::exception& e) { rd = std::string("ref-rejects:") + e.what(); }
            if (rd != orig_ref[c.seed]) { R.count("generator_rejects"); size_t dp = 0; while (dp < rd.size() && dp < orig_ref[c.seed].size() && rd[dp] == orig_ref[c.seed][dp]) dp++; R.notes.push_back("generator produced a non-equivalent file for " + c.desc + " seed " + seeds[c.seed].first + " at " + std::to_string(dp) + ": got ..." + rd.substr(dp > 40 ? dp - 40 : 0, 120) + " expected ..." + orig_ref[c.seed].substr(dp > 40 ? dp - 40 : 0, 120)); return; }
            std::string ld = lib::file_dump(lib::read_bytes(c.bytes));
            R.count("traces"); R.count("nontrivial");
            std::string kind = c.desc.substr(0, c.desc.find('@'));
            if (kind.rfind("pair-", 0) == 0) { size_t pl = c.desc.find('+'); std::string k2 = c.desc.substr(pl + 1); kind += "+" + k2.substr(0, k2.find('@')); }
            if (kind.rfind("unknown-key", 0) == 0) { size_t v = kind.find("-val-"); size_t e = kind.find("-pos"); kind = "unknown-member|val-" + kind.substr(v + 5, e - v - 5); }
            if (ld != orig_dump[c.seed]) {
                size_t p = 0; while (p < ld.size() && p < orig_dump[c.seed].size() && ld[p] == orig_dump[c.seed][p]) p++;
                std::string tail = ld.size() > 80 ? ld.substr(ld.size() - 80) : ld;
                R.violation("rewrite|" + kind, "seed " + seeds[c.seed].first + " " + c.desc + ": reader output differs from the original at " + std::to_string(p) + " (…" + tail + ")", rep);
            }
            R.outcome(kind + (ld != orig_dump[c.seed] ? ":viol" : ":ok"));
            if (i % 5003 == 11) R.sample("seed=" + seeds[c.seed].first + ";rw=" + c.desc);
        }, [&](uint64_t i, const std::string& d, Result& R) { R.violation("rewrite|" + crash_key(d), "crash: " + d.substr(0, 1500), pool.last_note); }, total);
        total.n["evaluations"] = total.n["traces"];
        if (total.n["generator_rejects"]) { fprintf(stderr, "generator produced %lu non-equivalent files\n", (unsigned long)total.n["generator_rejects"]); for (auto& n : total.notes) fprintf(stderr, "  %s\n", n.c_str()); a.finish(total); rm_rf(g_dir); return 2; }
        return done(0);
    }

    if (a.mode == "mutate") {
        std::vector<std::pair<std::string, std::string>> seeds = {{"small", seeds::small()}, {"rich", seeds::rich()}};
        if (T || !a.replay.empty()) seeds.push_back({"mid", seeds::mid()});
        struct Case { std::string desc, bytes; };
        // generated lazily per task to keep memory low: task = (family, seed, lo, hi)
        struct Task { int fam; size_t seed; size_t lo, hi; };
        std::vector<Task> tasks;
        std::vector<std::vector<Node>> trees;
        std::vector<std::vector<std::pair<size_t, size_t>>> heads;   // (offset of head byte, node index) per seed
        for (size_t si = 0; si < seeds.size(); si++) {
            const std::string& b = seeds[si].second; size_t N = b.size();
            for (size_t i = 0; i <= N; i += 32) tasks.push_back({0, si, i, std::min(N + 1, i + 32)});             // truncations
            size_t step = (si == 0 || T) ? 1 : 2;                                                                  // byte substitutions (quick: seed rich every 2nd byte x the 64-symbol alphabet)
            for (size_t i = 0; i < N; i += 4 * step) tasks.push_back({1, si, i, std::min(N, i + 4 * step)});
            Node root = parse_exact(b); std::vector<std::pair<size_t, size_t>> h; size_t idx = 0; visit((const Node&)root, [&](const Node& n) { h.push_back({n.begin, idx++}); });
            heads.push_back(h);
            for (size_t i = 0; i < h.size(); i += 4) tasks.push_back({2, si, i, std::min(h.size(), i + 4)});       // head substitutions
            for (size_t i = 0; i < h.size(); i += 8) tasks.push_back({3, si, i, std::min(h.size(), i + 8)});       // nesting bombs under unknown keys
        }
        tasks.push_back({4, 0, 0, 256});                                                                            // raw: all strings of length <= 2
        for (size_t i = 0; i < 64; i++) tasks.push_back({5, 0, i, i + 1});                                         // raw length 3 over a 64-symbol alphabet
        for (int k = 0; k < 5; k++) for (size_t d : {(size_t)10, (size_t)100, (size_t)1000, (size_t)10000, (size_t)100000, (size_t)(T ? 1000000 : 200000)}) tasks.push_back({6, (size_t)k, d, 0}); // raw bombs
        for (size_t k = 0; k <= 3; k++) tasks.push_back({7, 0, k, 0});                                             // k*65535-byte files ending inside a string
        for (size_t k = 0; k < 4; k++) tasks.push_back({8, 0, k, 0});                                              // length / count fields close to 2^64, 2^63, 2^32 in skipped and read positions
        for (size_t wf = 0; wf < 2; wf++) tasks.push_back({10, wf, (size_t)(T ? 200000 : 100000), 0});                                  // tens of thousands of address events that differ in one member only (time must stay proportional to the input)
        tasks.push_back({9, 0, 0, 0});                                                                              // every string of the small seed re-encoded as a chunked string whose first chunk declares a huge length
        static const unsigned char A64[] = {0x00, 0x01, 0x17, 0x18, 0x19, 0x1a, 0x1b, 0x1c, 0x1f, 0x20, 0x37, 0x38, 0x3b, 0x3f, 0x40, 0x41, 0x57, 0x58, 0x59, 0x5a, 0x5b, 0x5f, 0x60, 0x61, 0x78, 0x7b, 0x7f, 0x80, 0x81, 0x82, 0x98, 0x9b, 0x9f,
                                            0xa0, 0xa1, 0xb8, 0xbb, 0xbf, 0xc0, 0xc1, 0xd8, 0xdb, 0xdf, 0xe0, 0xf4, 0xf5, 0xf6, 0xf7, 0xf8, 0xf9, 0xfa, 0xfb, 0xfc, 0xff, 0x02, 0x03, 0x05, 0x0a, 0x2a, 0x43, 0x63, 0x83, 0xa2, 0xc2};
        static const uint64_t BV[] = {0, 1, 23, 24, 255, 256, 65535, 65536, 1ULL << 24, 1ULL << 27, 1ULL << 30, 0xffffffffULL, 0x100000000ULL, 0x7fffffffffffffffULL, 0x8000000000000000ULL, 0xffffffffffffffffULL};   // incl. mid-range lengths: an allocation sized by such a field exceeds the 64 MiB cap without needing 2^32
        auto run_one = [&](const std::string& desc, const std::string& bytes, Result& R) {
            set_note("desc=" + desc + ";hex=" + (bytes.size() <= 3800 ? hex(bytes) : std::string("<long>")));
            bool reuse = desc.rfind("trunc-", 0) == 0 || desc.rfind("arg-", 0) == 0 || desc.rfind("major-", 0) == 0 || desc.rfind("ai31-", 0) == 0;   // families that break a file inside a later block
            std::string o = consume::all(bytes, reuse);
            if (o.find("CURSOR-PAST-END") != std::string::npos) R.violation("mutate|decoder-cursor-beyond-buffered-data", "after a decoder call the read cursor is beyond the end of the buffered data (bytes that were never read from the input were consumed) [" + desc + "]", "desc=" + desc + ";hex=" + (bytes.size() <= 3800 ? hex(bytes) : std::string("<long>")));
            R.count("traces"); if (o.find("hdr") != std::string::npos) R.count("nontrivial"); R.outcome(o);
        };
        if (!a.replay.empty()) {
            std::string s = slurp(a.replay); size_t p = s.find("hex="); std::string bytes;
            if (p == std::string::npos) return done(2);
            std::string hx = s.substr(p + 4); while (!hx.empty() && !isxdigit((unsigned char)hx.back())) hx.pop_back();
            if (hx.rfind("<long>", 0) == 0 || hx.empty()) {
                // regenerate long cases from the description
                size_t q = s.find("desc="); std::string d = s.substr(q + 5, s.find(';', q) - q - 5);
                if (d.rfind("bomb", 0) == 0) { int k = atoi(d.c_str() + 4); size_t pos = d.find("-d"); size_t dd = strtoull(d.c_str() + pos + 2, nullptr, 10); bytes = bomb(k, dd); }
                else if (d.rfind("mapbomb", 0) == 0) { int k = d[7] - '0'; size_t pos = d.find("-d"); size_t dd = strtoull(d.c_str() + pos + 2, nullptr, 10); size_t p2 = d.find('-', pos + 2); size_t p3 = d.rfind("-n"); std::string sn = d.substr(p2 + 1, p3 - p2 - 1); size_t idx = strtoull(d.c_str() + p3 + 2, nullptr, 10);
                    for (auto& sd : seeds) if (sd.first == sn) bytes = make_mapbomb(sd.second, idx, k, dd); if (bytes.empty()) return done(2); }
                else if (d.rfind("manyaec", 0) == 0) { int wf = d[7] - '0'; size_t pos = d.find("-n"); bytes = make_manyaec(strtoull(d.c_str() + pos + 2, nullptr, 10), wf); }
                else if (d.rfind("exactk", 0) == 0) { size_t k = strtoull(d.c_str() + 6, nullptr, 10); std::string f = seeds::exact((k ? k : 1) * W + 50); bytes = f.substr(0, k * W); }
                else if (hx.empty()) bytes.clear();   // the empty input (trunc-<seed>-0, raw-empty) replays as it is
                else return done(2);
            } else bytes = unhex(hx);
            Pool rp(1, 60);
            rp.run(1, [&](uint64_t, Result& R) { std::string o = consume::all(bytes, true); if (o.find("CURSOR-PAST-END") != std::string::npos) R.violation("mutate|decoder-cursor-beyond-buffered-data", "after a decoder call the read cursor is beyond the end of the buffered data", s); R.count("traces"); },
                   [&](uint64_t, const std::string& d, Result& R) { R.violation("mutate|" + crash_key(d), d.substr(0, 2500), s); }, total);
            return done(total.viol.empty() ? 0 : 1);
        }
        Pool pool(a.jobs, 20);
        pool.run(tasks.size(), [&](uint64_t ti, Result& R) {
            if (a.expired()) { R.deadline_hit = true; return; }
            const Task& t = tasks[ti];
            const std::string& b = seeds[t.fam <= 3 ? t.seed : 0].second;
            switch (t.fam) {
            case 10: { std::string f = make_manyaec(t.lo, (int)t.seed); try { ref::read_file(f); } catch (std::exception& e) { R.violation("mutate|harness|manyaec", std::string("generated file is not valid: ") + e.what(), "desc=manyaec"); break; }
                       run_one("manyaec" + std::to_string(t.seed) + "-n" + std::to_string(t.lo), f, R); break; }
            case 0: for (size_t n = t.lo; n < t.hi; n++) run_one("trunc-" + seeds[t.seed].first + "-" + std::to_string(n), b.substr(0, n), R); break;
            case 1: for (size_t i = t.lo; i < t.hi; i++) { std::string m = b; for (int v = 0; v < 256; v++) { if ((unsigned char)b[i] == v) continue; if (!T && t.seed != 0 && !memchr(A64, v, sizeof A64)) continue; m[i] = (char)v; run_one("byte-" + seeds[t.seed].first + "-" + std::to_string(i) + "=" + std::to_string(v), m, R); } } break;
            case 2: {
                Node root = parse_exact(b); std::vector<Node*> nodes; visit(root, [&](Node& n) { nodes.push_back(&n); });
                for (size_t i = t.lo; i < t.hi; i++) {
                    Node& n = *nodes[i]; Node saved = n; size_t off = n.begin;
                    // argument substitution in every head width that can hold it: patch bytes directly (lengths become lies on purpose)
                    size_t hl = saved.ai < 24 ? 1 : saved.ai == 31 ? 1 : 1 + (1u << (saved.ai - 24));
                    for (uint64_t v : BV) for (int ai = min_ai(v); ai <= 27; ai = ai < 24 ? 24 : ai + 1) {
                        std::string head; put_head(head, saved.major, ai, v);
                        run_one("arg-" + seeds[t.seed].first + "-n" + std::to_string(i) + "-m" + std::to_string(saved.major) + "-v" + std::to_string(v) + "-ai" + std::to_string(ai), b.substr(0, off) + head + b.substr(off + hl), R);
                    }
                    for (int mj = 0; mj < 8; mj++) if (mj != saved.major) { std::string m = b; m[off] = (char)((mj << 5) | (b[off] & 31)); run_one("major-" + seeds[t.seed].first + "-n" + std::to_string(i) + "-to" + std::to_string(mj), m, R); }
                    { std::string m = b; m[off] = (char)((b[off] & 0xe0) | 31); run_one("ai31-" + seeds[t.seed].first + "-n" + std::to_string(i), m, R); }
                    for (int ai : {28, 29, 30}) { std::string m = b; m[off] = (char)((b[off] & 0xe0) | ai); run_one("aireserved-" + seeds[t.seed].first + "-n" + std::to_string(i), m, R); }
                    // well-formed but degenerate: the container / string emptied (content removed, not just the head patched), and reduced to its first element
                    if (saved.major >= 2 && saved.major <= 5 && (!saved.kids.empty() || !saved.bytes.empty())) {
                        for (int keep = 0; keep < 2; keep++) { if (keep && (saved.major < 4 || saved.kids.size() <= (saved.major == 5 ? 2u : 1u))) continue;
                            Node copy = root; Node* mp = nullptr; { size_t c = 0; visit(copy, [&](Node& y) { if (c++ == i) mp = &y; }); } Node& m = *mp;   // edit a copy: `nodes` points into `root`
                            m.kids.clear(); m.bytes.clear(); m.indef = false; if (keep) { m.kids.push_back(saved.kids[0]); if (saved.major == 5) m.kids.push_back(saved.kids[1]); }
                            m.arg = saved.major == 5 ? m.kids.size() / 2 : m.kids.size(); m.ai = min_ai(m.arg);
                            run_one(std::string(keep ? "first-only-" : "emptied-") + seeds[t.seed].first + "-n" + std::to_string(i) + "-m" + std::to_string(saved.major), encode(copy), R); } }
                }
                break; }
            case 3: {
                Node root = parse_exact(b); std::vector<Node*> nodes; visit(root, [&](Node& n) { nodes.push_back(&n); });
                for (size_t i = t.lo; i < t.hi; i++) if (nodes[i]->major == 5) {
                    for (int k = 0; k < 4; k++) for (size_t d : {(size_t)100, (size_t)20000, (size_t)(T ? 300000 : 120000)}) {
                        std::string enc = make_mapbomb(b, i, k, d); if (enc.empty()) continue;
                        run_one("mapbomb" + std::to_string(k) + "-d" + std::to_string(d) + "-" + seeds[t.seed].first + "-n" + std::to_string(i), enc, R);
                    }
                }
                break; }
            case 4: { run_one("raw-empty", "", R); for (int x = 0; x < 256; x++) { run_one("raw1", std::string(1, (char)x), R); for (int y = 0; y < 256; y++) { std::string s; s.push_back((char)x); s.push_back((char)y); run_one("raw2", s, R); } } break; }
            case 5: for (unsigned char y : A64) for (unsigned char z : A64) { std::string s; s.push_back((char)A64[t.lo]); s.push_back((char)y); s.push_back((char)z); run_one("raw3", s, R); if (T) for (unsigned char w : {(unsigned char)0x00, (unsigned char)0xff, (unsigned char)0x41, (unsigned char)0x9f}) run_one("raw4", s + std::string(1, (char)w), R); } break;
            case 6: run_one("bomb" + std::to_string(t.seed) + "-d" + std::to_string(t.lo), bomb((int)t.seed, t.lo), R); break;
            case 7: { std::string f = seeds::exact((t.lo ? t.lo : 1) * W + 50); run_one("exactk" + std::to_string(t.lo), f.substr(0, t.lo * W), R); break; }
            case 9: {
                static const uint64_t CL[] = {1ULL << 27, 1ULL << 30, 1ULL << 32, 1ULL << 40, 1ULL << 62, ~0ULL};
                Node root = parse_exact(b); std::vector<const Node*> strs; visit((const Node&)root, [&](const Node& n) { if ((n.major == 2 || n.major == 3) && !n.indef) strs.push_back(&n); });
                for (size_t i = 0; i < strs.size(); i++) for (uint64_t L : CL) for (int ai : {26, 27}) { if (ai == 26 && L > 0xffffffffULL) continue; if (!T && i % 3 && L != (1ULL << 30)) continue;
                    const Node& n = *strs[i]; std::string head; put_head(head, n.major, ai, L); std::string item = std::string(1, (char)((n.major << 5) | 31)) + head + n.bytes;   // no break: the input ends / continues with garbage inside the "chunk"
                    run_one("chunklen-" + std::to_string(i) + "-L" + std::to_string(L) + "-ai" + std::to_string(ai), b.substr(0, n.begin) + item + b.substr(n.end), R);
                    if (i == 0) { run_one("chunklen-raw-m" + std::to_string(n.major) + "-L" + std::to_string(L), item, R); run_one("chunklen-raw-in-array-L" + std::to_string(L), std::string("\x82\x00") + item, R); } }
                break; }
            case 8: {
                static const uint64_t LV[] = {~0ULL, ~0ULL - 1, ~0ULL - 7, ~0ULL - 8, ~0ULL - 9, ~0ULL - 15, ~0ULL - 16, ~0ULL - 65534, ~0ULL - 65535, ~0ULL - 0xffffffffULL, (1ULL << 63) + 1, 1ULL << 63, (1ULL << 63) - 1, 1ULL << 62, 1ULL << 48, 1ULL << 32, 1ULL << 31};
                int major = 2 + (int)t.lo;   // byte string, text string, array, map
                for (uint64_t L : LV) {
                    std::string item; put_head(item, major, 27, L); item += std::string(24, '\x01');
                    std::string nm = "len-m" + std::to_string(major) + "-" + std::to_string(L);
                    run_one(nm + "-raw", item, R);
                    run_one(nm + "-in-indef-array", std::string("\x9f") + item + "\xff", R);
                    run_one(nm + "-in-array", std::string("\x82\x00") + item, R);
                    run_one(nm + "-tagged", std::string("\xc1") + item, R);
                    // as the value of an unknown key in each map of the small seed (reached through skip_item)
                    const std::string& sb = seeds[0].second; Node root = parse_exact(sb); size_t idx = 0, nmaps = 0; std::vector<size_t> mapidx; visit((const Node&)root, [&](const Node& x) { if (x.major == 5) mapidx.push_back(idx); idx++; });
                    for (size_t mi = 0; mi < mapidx.size(); mi += 3) { Node r2 = root; Node* np = nullptr; size_t c = 0; visit(r2, [&](Node& x) { if (c++ == mapidx[mi]) np = &x; });
                        std::string marker = "MARKER-FOR-SPLICE!"; np->kids.insert(np->kids.begin(), {mk_uint(222), mk_tstr(marker)}); std::string enc = encode(r2); std::string mk = encode(mk_tstr(marker)); size_t p = enc.find(mk); if (p == std::string::npos) continue;
                        for (int wrap = 0; wrap < 2; wrap++) { std::string e2 = enc; e2.replace(p, mk.size(), wrap ? std::string("\x9f") + item + "\xff" : item); run_one(nm + "-unknown-key-map" + std::to_string(mi) + (wrap ? "-wrapped" : ""), e2, R); } (void)nmaps; }
                }
                break; }
            }
            if (ti % 211 == 3) R.sample("task family " + std::to_string(t.fam) + " seed " + std::to_string(t.seed) + " range " + std::to_string(t.lo) + ".." + std::to_string(t.hi));
        }, [&](uint64_t, const std::string& d, Result& R) {
            std::string note = pool.last_note; std::string fam = note.substr(5, note.find_first_of("-;", 5) - 5);
            R.violation("mutate|" + crash_key(d), "input family " + fam + ": " + d.substr(0, 2500), note);
        }, total);
        total.n["evaluations"] = total.n["traces"];
        return done(0);
    }
    if (a.mode == "render") {
        // C03 family 5: malformed domain names and addresses straight into every text renderer (no file needed)
        std::vector<std::string> names; static const unsigned char NA[] = {0, 1, 2, 3, 0x3f, 0x40, 0xc0, 0xff};
        names.push_back("");
        for (unsigned char x : NA) { names.push_back(std::string(1, (char)x)); for (unsigned char y : NA) { names.push_back(std::string{(char)x, (char)y}); for (unsigned char z : NA) names.push_back(std::string{(char)x, (char)y, (char)z}); } }
        // structured: k labels of length 1, then a label whose length byte overshoots the end by 0..3 (with and without root label); up to 65600 labels
        // (label counts and total sizes around 2^8 and 2^16 as well: counters narrower than the name wrap there)
        for (int k : {0, 1, 2, 5, 19, 20, 21, 63, 100, 127, 149, 253, 254, 255, 256, 257, 300, 511, 512, 513, 600, 32767, 32768, 32800, 65535, 65536, 65600}) for (int over = -1; over <= 3; over++) for (int lastlen : {1, 7, 25, 63, 200, 255}) {
            if (k > 600 && !(lastlen == 7 || lastlen == 200)) continue;
            std::string n; for (int i = 0; i < k; i++) { n.push_back(1); n.push_back('a'); }
            int payload = lastlen - over; if (payload < 0) payload = 0; n.push_back((char)lastlen); n.append((size_t)payload, 'b'); names.push_back(n); names.push_back(n + std::string(1, '\0')); }
        for (size_t L : {(size_t)40, (size_t)64, (size_t)255, (size_t)256, (size_t)300}) { names.push_back(std::string(L, '\x01')); names.push_back(std::string(L, '\xff')); std::string n(L, '\x01'); n[L / 2] = 25; names.push_back(n); }
        std::vector<std::string> addrs; for (size_t l = 0; l <= 20; l++) { addrs.push_back(std::string(l, '\0')); addrs.push_back(std::string(l, '\xff')); std::string p(l, 0); for (size_t i = 0; i < l; i++) p[i] = (char)(i * 37 + 1); addrs.push_back(p); }
        struct RCase { int kind; size_t idx; };
        std::vector<RCase> cases; for (size_t i = 0; i < names.size(); i++) cases.push_back({0, i}); for (size_t i = 0; i < addrs.size(); i++) cases.push_back({1, i});
        auto run = [&](const RCase& c) {
            if (c.kind == 0) { const std::string& n = names[c.idx]; CDNS::GenericQueryResponse g; g.query_name = n; g.bailiwick = n; CDNS::GenericResourceRecord r; r.name = n; r.rdata = n; g.query_questions = std::vector<CDNS::GenericResourceRecord>{r}; g.response_answers = std::vector<CDNS::GenericResourceRecord>{r, r}; consume::use(g.string()); consume::use(r.string()); }
            else { const std::string& ad = addrs[c.idx]; CDNS::GenericQueryResponse g; g.client_ip = ad; g.server_ip = ad; consume::use(g.string()); CDNS::GenericAddressEventCount e; e.ip_address = ad; consume::use(e.string()); CDNS::GenericMalformedMessage m; m.client_ip = ad; m.server_ip = ad; m.mm_payload = ad; consume::use(m.string()); }
        };
        // valgrind pass (uninitialised reads inside live std::string storage are invisible to ASan): run as `--valgrind-child` on the plain build
        if (a.kv.count("child")) { for (auto& c : cases) run(c); printf("{\"counters\":{},\"distinct_outcomes\":0,\"outcomes\":[],\"samples\":[],\"violations\":[],\"violation_counts\":{},\"notes\":[],\"deadline_hit\":false}\n"); rm_rf(g_dir); return 0; }
        if (!a.replay.empty()) { std::string s = slurp(a.replay); int k; unsigned long i; if (sscanf(s.c_str(), "render=%d;idx=%lu", &k, &i) != 2) return done(2);
            Pool rp(1, 60); rp.run(1, [&](uint64_t, Result& R) { run({k, i}); R.count("traces"); }, [&](uint64_t, const std::string& d, Result& R) { R.violation("render|" + crash_key(d), d.substr(0, 2000), s); }, total); return done(total.viol.empty() ? 0 : 1); }
        Pool pool(a.jobs, 60);
        pool.run(cases.size(), [&](uint64_t i, Result& R) { set_note("render=" + std::to_string(cases[i].kind) + ";idx=" + std::to_string(cases[i].idx)); run(cases[i]); R.count("traces"); R.count("nontrivial"); R.outcome(cases[i].kind ? "address" : "name"); if (i % 211 == 0) R.sample((cases[i].kind ? "address " : "name ") + hex(cases[i].kind ? addrs[cases[i].idx] : names[cases[i].idx]).substr(0, 80)); },
                 [&](uint64_t, const std::string& d, Result& R) { R.violation("render|" + crash_key(d), "renderer crashed: " + d.substr(0, 2000), pool.last_note); }, total);
        total.n["evaluations"] = total.n["traces"];
        total.notes.push_back(std::to_string(names.size()) + " names, " + std::to_string(addrs.size()) + " addresses through GenericQueryResponse / GenericResourceRecord / GenericAddressEventCount / GenericMalformedMessage ::string()");
        return done(0);
    }
    fprintf(stderr, "unknown mode\n"); return done(2);
}
