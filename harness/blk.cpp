// Block-level explorations on real CdnsBlock / CdnsBlockRead objects.
//   --mode tables (C11)  every add/get/find/clear sequence up to a depth per table vs. vector+linear search; growth; hash/equality pools
//   --mode direct (C02b, C10b) every sequence of public add_* calls building a block directly, written through the exporter, validated independently
//   --mode copy   (C19)  every way of copying x fate of the source x follow-up operations, differential against a freshly built block, under ASan
#include "util.hpp"
#include "pools.hpp"
using namespace vh;
using namespace CDNS;

struct BV { std::string key, what; };
std::string consume_cls(const std::string& m);

// ----------------------------------------------------------------------------- value pools per table
static std::vector<std::string> ip_pool() { return {std::string(), std::string("\1\2\3\4", 4), std::string("\1\2\3\5", 4), std::string(16, '\x20'), std::string("\1\2\3\4\0", 5), std::string(16, '\x20') + "%eth0", std::string(16, '\x20') + std::string(24, '\x21')}; }   // the last two: longer than an IPv6 address (the table takes any byte string), equal in their first 16 bytes
static std::vector<std::string> name_pool() { return {std::string("\3www\0", 5), std::string("\3wwx\0", 5), std::string("\0", 1), std::string(3000, 'n'), std::string("\3www", 4)}; }
static std::vector<ClassType> ct_pool() { std::vector<ClassType> v; for (auto p : std::vector<std::pair<int, int>>{{1, 1}, {1, 2}, {2, 1}, {0, 0}, {65535, 65535}}) { ClassType c; c.type = p.first; c.class_ = p.second; v.push_back(c); } return v; }
static std::vector<std::vector<index_t>> list_pool() { return {{}, {0}, {1}, {0, 1}, {1, 0}, {0, 0}}; }
static std::vector<Question> q_pool() { std::vector<Question> v; for (auto p : std::vector<std::pair<int, int>>{{0, 0}, {0, 1}, {1, 0}, {1, 1}}) { Question q; q.name_index = p.first; q.classtype_index = p.second; v.push_back(q); } return v; }
static std::vector<RR> rr_pool() {
    std::vector<RR> v; RR b; v.push_back(b); { RR r; r.ttl = 0; v.push_back(r); } { RR r; r.ttl = 1; v.push_back(r); } { RR r; r.rdata_index = 0; v.push_back(r); } { RR r; r.ttl = 0; r.rdata_index = 0; v.push_back(r); } { RR r; r.name_index = 1; v.push_back(r); } { RR r; r.classtype_index = 1; v.push_back(r); }
    return v; }
static std::vector<MalformedMessageData> mmd_pool() {
    std::vector<MalformedMessageData> v; v.emplace_back(); { MalformedMessageData m; m.server_address_index = 0; v.push_back(m); } { MalformedMessageData m; m.server_port = 0; v.push_back(m); }
    { MalformedMessageData m; m.mm_transport_flags = (QueryResponseTransportFlagsMask)0; v.push_back(m); } { MalformedMessageData m; m.mm_payload = std::string(); v.push_back(m); } { MalformedMessageData m; m.mm_payload = std::string("x"); v.push_back(m); }
    return v; }
// signature: base (empty) + each member present with value 0 / 1 ; used for sequences (first 6) and for the pair check (all)
static std::vector<QueryResponseSignature> sig_pool(bool pairs) {
    std::vector<QueryResponseSignature> v; v.emplace_back();
    auto set = [](QueryResponseSignature& s, int m, int val) {
        switch (m) {
        case 0: s.server_address_index = val; break; case 1: s.server_port = val; break; case 2: s.qr_transport_flags = (QueryResponseTransportFlagsMask)val; break; case 3: s.qr_type = (QueryResponseTypeValues)val; break;
        case 4: s.qr_sig_flags = (QueryResponseFlagsMask)val; break; case 5: s.query_opcode = val; break; case 6: s.qr_dns_flags = (DNSFlagsMask)val; break; case 7: s.query_rcode = val; break; case 8: s.query_classtype_index = val; break;
        case 9: s.query_qdcount = val; break; case 10: s.query_ancount = val; break; case 11: s.query_nscount = val; break; case 12: s.query_arcount = val; break; case 13: s.query_edns_version = val; break; case 14: s.query_udp_size = val; break;
        case 15: s.query_opt_rdata_index = val; break; case 16: s.response_rcode = val; break; } };
    for (int m = 0; m < 17; m++) for (int val : {0, 1}) { QueryResponseSignature s; set(s, m, val); v.push_back(s); }
    if (pairs) for (int m = 0; m < 17; m++) for (int n = m + 1; n < 17; n++) for (int val : {0, 1}) { QueryResponseSignature s; set(s, m, val); set(s, n, 1 - val); v.push_back(s); }
    return v;
}

template <class T> static std::string canon(const T& x);
template <> std::string canon(const std::string& s) { return ref::hex(s); }
template <> std::string canon(const ClassType& c) { return std::to_string(c.type) + "/" + std::to_string(c.class_); }
template <> std::string canon(const std::vector<index_t>& l) { std::string s = "["; for (auto i : l) s += std::to_string(i) + ","; return s + "]"; }
template <> std::string canon(const Question& q) { return std::to_string(q.name_index) + "/" + std::to_string(q.classtype_index); }
template <class O> static std::string os(const O& o) { return o ? std::to_string((uint64_t)*o) : std::string("-"); }
template <> std::string canon(const RR& r) { return std::to_string(r.name_index) + "/" + std::to_string(r.classtype_index) + "/" + os(r.ttl) + "/" + os(r.rdata_index); }
template <> std::string canon(const MalformedMessageData& m) { return os(m.server_address_index) + "/" + os(m.server_port) + "/" + os(m.mm_transport_flags) + "/" + (m.mm_payload ? ref::hex(*m.mm_payload) + "." : std::string("-")); }
template <> std::string canon(const QueryResponseSignature& s) {
    return os(s.server_address_index) + "/" + os(s.server_port) + "/" + os(s.qr_transport_flags) + "/" + os(s.qr_type) + "/" + os(s.qr_sig_flags) + "/" + os(s.query_opcode) + "/" + os(s.qr_dns_flags) + "/" + os(s.query_rcode) + "/" +
           os(s.query_classtype_index) + "/" + os(s.query_qdcount) + "/" + os(s.query_ancount) + "/" + os(s.query_nscount) + "/" + os(s.query_arcount) + "/" + os(s.query_edns_version) + "/" + os(s.query_udp_size) + "/" + os(s.query_opt_rdata_index) + "/" + os(s.response_rcode); }

// generic table adapter
struct TableIf {
    const char* name; size_t pool_size;
    std::function<index_t(CdnsBlock&, size_t)> add; std::function<std::string(CdnsBlock&, index_t)> get; std::function<bool(CdnsBlock&, size_t, index_t&)> find;
    std::function<std::string(size_t)> value; std::function<size_t(CdnsBlock&)> size;
};
template <class T, class Add, class Get, class Tbl>
static TableIf mk(const char* name, std::vector<T> pool, Add add, Get get, Tbl tbl) {
    auto P = std::make_shared<std::vector<T>>(std::move(pool));
    TableIf t; t.name = name; t.pool_size = P->size();
    t.add = [P, add](CdnsBlock& b, size_t i) { return add(b, (*P)[i]); };
    t.get = [get](CdnsBlock& b, index_t i) { return canon(get(b, i)); };
    t.value = [P](size_t i) { return canon((*P)[i]); };
    t.find = [P, tbl](CdnsBlock& b, size_t i, index_t& idx) { return tbl(b, (*P)[i], idx); };
    return t;
}
static std::vector<TableIf> tables() {
    std::vector<TableIf> v;
    v.push_back(mk<std::string>("ip", ip_pool(), [](CdnsBlock& b, const std::string& x) { return b.add_ip_address(x); }, [](CdnsBlock& b, index_t i) { return b.get_ip_address(i); },
                                [](CdnsBlock& b, const std::string& x, index_t& i) { StringItem k; k.data = x; return b.m_ip_address.find(k, i); })); v.back().size = [](CdnsBlock& b) { return b.m_ip_address.size(); };
    v.push_back(mk<ClassType>("classtype", ct_pool(), [](CdnsBlock& b, const ClassType& x) { return b.add_classtype(x); }, [](CdnsBlock& b, index_t i) { return b.get_classtype(i); },
                              [](CdnsBlock& b, const ClassType& x, index_t& i) { return b.m_classtype.find(x, i); })); v.back().size = [](CdnsBlock& b) { return b.m_classtype.size(); };
    v.push_back(mk<std::string>("name_rdata", name_pool(), [](CdnsBlock& b, const std::string& x) { return b.add_name_rdata(x); }, [](CdnsBlock& b, index_t i) { return b.get_name_rdata(i); },
                                [](CdnsBlock& b, const std::string& x, index_t& i) { StringItem k; k.data = x; return b.m_name_rdata.find(k, i); })); v.back().size = [](CdnsBlock& b) { return b.m_name_rdata.size(); };
    { auto p = sig_pool(false); p.resize(7); v.push_back(mk<QueryResponseSignature>("qr_sig", p, [](CdnsBlock& b, const QueryResponseSignature& x) { return b.add_qr_signature(x); }, [](CdnsBlock& b, index_t i) { return b.get_qr_signature(i); },
                                [](CdnsBlock& b, const QueryResponseSignature& x, index_t& i) { return b.m_qr_sig.find(x, i); })); v.back().size = [](CdnsBlock& b) { return b.m_qr_sig.size(); }; }
    v.push_back(mk<std::vector<index_t>>("qlist", list_pool(), [](CdnsBlock& b, const std::vector<index_t>& x) { return b.add_question_list(x); }, [](CdnsBlock& b, index_t i) { return b.get_question_list(i); },
                                [](CdnsBlock& b, const std::vector<index_t>& x, index_t& i) { IndexListItem k; k.list = x; return b.m_qlist.find(k, i); })); v.back().size = [](CdnsBlock& b) { return b.m_qlist.size(); };
    v.push_back(mk<Question>("qrr", q_pool(), [](CdnsBlock& b, const Question& x) { return b.add_question(x); }, [](CdnsBlock& b, index_t i) { return b.get_question(i); },
                             [](CdnsBlock& b, const Question& x, index_t& i) { return b.m_qrr.find(x, i); })); v.back().size = [](CdnsBlock& b) { return b.m_qrr.size(); };
    v.push_back(mk<std::vector<index_t>>("rrlist", list_pool(), [](CdnsBlock& b, const std::vector<index_t>& x) { return b.add_rr_list(x); }, [](CdnsBlock& b, index_t i) { return b.get_rr_list(i); },
                                [](CdnsBlock& b, const std::vector<index_t>& x, index_t& i) { IndexListItem k; k.list = x; return b.m_rrlist.find(k, i); })); v.back().size = [](CdnsBlock& b) { return b.m_rrlist.size(); };
    v.push_back(mk<RR>("rr", rr_pool(), [](CdnsBlock& b, const RR& x) { return b.add_rr(x); }, [](CdnsBlock& b, index_t i) { return b.get_rr(i); },
                       [](CdnsBlock& b, const RR& x, index_t& i) { return b.m_rr.find(x, i); })); v.back().size = [](CdnsBlock& b) { return b.m_rr.size(); };
    v.push_back(mk<MalformedMessageData>("mmd", mmd_pool(), [](CdnsBlock& b, const MalformedMessageData& x) { return b.add_malformed_message_data(x); }, [](CdnsBlock& b, index_t i) { return b.get_malformed_message_data(i); },
                                         [](CdnsBlock& b, const MalformedMessageData& x, index_t& i) { return b.m_malformed_message_data.find(x, i); })); v.back().size = [](CdnsBlock& b) { return b.m_malformed_message_data.size(); };
    return v;
}

// ops for table sequences: 0..P-1 add(v), P..P+2 get(0/1/last+1), P+3.. find(v0), find(v1), clear
static void run_table_seq(const TableIf& t, const std::vector<int>& ops, Result& R, std::vector<BV>& out) {
    CdnsBlock b; std::vector<std::string> model; int P = (int)t.pool_size; int step = 0;
    for (int op : ops) {
        step++; R.count("transitions");
        std::string at = std::string(t.name) + " step " + std::to_string(step);
        if (op < P) {
            std::string v = t.value(op); size_t want = model.size(); for (size_t i = 0; i < model.size(); i++) if (model[i] == v) { want = i; break; }
            if (want == model.size()) model.push_back(v);
            index_t got = t.add(b, op);
            if (got != want) { out.push_back({std::string("add-index|") + t.name, at + ": add(" + v.substr(0, 40) + ") returned " + std::to_string(got) + ", expected " + std::to_string(want)}); return; }
        } else if (op < P + 3) {
            index_t i = op == P ? 0 : op == P + 1 ? 1 : (index_t)model.size();
            std::string got; bool threw = false; try { got = t.get(b, i); } catch (std::exception&) { threw = true; }
            if (i < model.size()) { if (threw || got != model[i]) { out.push_back({std::string("get-value|") + t.name, at + ": get(" + std::to_string(i) + ") " + (threw ? "threw" : "returned " + got.substr(0, 40)) + ", expected " + model[i].substr(0, 40)}); return; } }
            else if (!threw) { out.push_back({std::string("get-out-of-range|") + t.name, at + ": get(" + std::to_string(i) + ") beyond the table did not throw"}); return; }
        } else if (op < P + 5) {
            int vi = op - (P + 3); std::string v = t.value(vi); size_t want = model.size(); for (size_t i = 0; i < model.size(); i++) if (model[i] == v) { want = i; break; }
            index_t idx = 0; bool f = t.find(b, vi, idx);
            if (f != (want < model.size()) || (f && idx != want)) { out.push_back({std::string("find|") + t.name, at + ": find(" + v.substr(0, 40) + ") = " + std::to_string(f) + "/" + std::to_string(idx) + ", expected " + (want < model.size() ? std::to_string(want) : "not found")}); return; }
        } else { b.clear(); model.clear(); }
        if (t.size(b) != model.size()) { out.push_back({std::string("size|") + t.name, at + ": table size " + std::to_string(t.size(b)) + ", model " + std::to_string(model.size())}); return; }
    }
    // all stored values still retrievable (index stability)
    for (size_t i = 0; i < model.size(); i++) { std::string got; try { got = t.get(b, (index_t)i); } catch (std::exception&) { got = "<threw>"; } if (got != model[i]) { out.push_back({std::string("index-stability|") + t.name, std::string(t.name) + ": entry " + std::to_string(i) + " changed"}); return; } }
}

// ----------------------------------------------------------------------------- direct blocks (C02b)
enum DOp { D_IP0, D_IP1, D_CT0, D_NAME0, D_NAME1, D_SIG_EMPTY, D_SIG_PORT, D_SIG_FULL, D_QLIST_EMPTY, D_QLIST_Q0, D_RRLIST_EMPTY, D_RRLIST_R0, D_QUESTION, D_RR_MIN, D_RR_FULL, D_MMD_EMPTY, D_MMD_FULL,
           D_QR_PORT, D_QR_EMPTY_RPD, D_QR_EMPTY_QE, D_QR_SIG, D_QR_FULL, D_QR_NOTHING, D_AEC, D_MM_EMPTY, D_MM_DATA, D_GENERIC_QR, D_N };
static const char* DN[] = {"ip0", "ip1", "ct0", "name0", "name1", "sig_empty", "sig_port", "sig_full", "qlist_empty", "qlist_q0", "rrlist_empty", "rrlist_r0", "question", "rr_min", "rr_full", "mmd_empty", "mmd_full",
                           "qr_port", "qr_empty_rpd", "qr_empty_qe", "qr_sig", "qr_full", "qr_nothing", "aec", "mm_empty", "mm_data", "generic_qr"};
struct DState { int ip = -1, ct = -1, name = -1, sig = -1, qlist = -1, rrlist = -1, q = -1, r = -1, mmd = -1; };

static bool d_enabled(int op, const DState& s) {
    switch (op) {
    case D_SIG_FULL: return s.ip >= 0 && s.ct >= 0 && s.name >= 0; case D_QLIST_Q0: return s.q >= 0; case D_RRLIST_R0: return s.r >= 0;
    case D_QUESTION: case D_RR_MIN: return s.name >= 0 && s.ct >= 0; case D_RR_FULL: return s.name >= 0 && s.ct >= 0;
    case D_MMD_FULL: return s.ip >= 0; case D_QR_SIG: return s.sig >= 0; case D_QR_FULL: return s.ip >= 0 && s.sig >= 0 && s.name >= 0 && s.qlist >= 0 && s.rrlist >= 0; case D_AEC: return s.ip >= 0; case D_MM_DATA: return s.mmd >= 0;
    default: return true; }
}
static void d_apply(int op, CdnsBlock& b, DState& s, const Pools& P) {
    switch (op) {
    case D_IP0: s.ip = b.add_ip_address(std::string("\x0a\0\0\1", 4)); break; case D_IP1: b.add_ip_address(std::string(16, '\xfe')); break;
    case D_CT0: { ClassType c; c.type = 1; c.class_ = 1; s.ct = b.add_classtype(c); break; }
    case D_NAME0: s.name = b.add_name_rdata(std::string("\3abc\0", 5)); break; case D_NAME1: b.add_name_rdata(std::string(2100, 'q')); break;
    case D_SIG_EMPTY: s.sig = b.add_qr_signature(QueryResponseSignature()); break;
    case D_SIG_PORT: { QueryResponseSignature g; g.server_port = 53; s.sig = b.add_qr_signature(g); break; }
    case D_SIG_FULL: { QueryResponseSignature g; g.server_address_index = s.ip; g.server_port = 853; g.qr_transport_flags = (QueryResponseTransportFlagsMask)2; g.qr_type = QueryResponseTypeValues::auth; g.qr_sig_flags = (QueryResponseFlagsMask)3; g.query_opcode = 0;
        g.qr_dns_flags = (DNSFlagsMask)0x7fff; g.query_rcode = 0; g.query_classtype_index = s.ct; g.query_qdcount = 1; g.query_ancount = 65535; g.query_nscount = 0; g.query_arcount = 0; g.query_edns_version = 0; g.query_udp_size = 4096; g.query_opt_rdata_index = s.name; g.response_rcode = 0; s.sig = b.add_qr_signature(g); break; }
    case D_QLIST_EMPTY: s.qlist = b.add_question_list({}); break; case D_QLIST_Q0: s.qlist = b.add_question_list({(index_t)s.q}); break;
    case D_RRLIST_EMPTY: s.rrlist = b.add_rr_list({}); break; case D_RRLIST_R0: s.rrlist = b.add_rr_list({(index_t)s.r, (index_t)s.r}); break;
    case D_QUESTION: { Question q; q.name_index = s.name; q.classtype_index = s.ct; s.q = b.add_question(q); break; }
    case D_RR_MIN: { RR r; r.name_index = s.name; r.classtype_index = s.ct; s.r = b.add_rr(r); break; }
    case D_RR_FULL: { RR r; r.name_index = s.name; r.classtype_index = s.ct; r.ttl = 4294967295u; r.rdata_index = s.name; s.r = b.add_rr(r); break; }
    case D_MMD_EMPTY: s.mmd = b.add_malformed_message_data(MalformedMessageData()); break;
    case D_MMD_FULL: { MalformedMessageData m; m.server_address_index = s.ip; m.server_port = 1; m.mm_transport_flags = (QueryResponseTransportFlagsMask)1; m.mm_payload = std::string("\0\1", 2); s.mmd = b.add_malformed_message_data(m); break; }
    case D_QR_PORT: { QueryResponse q; q.client_port = 5; b.add_question_response_record(q); break; }
    case D_QR_EMPTY_RPD: { QueryResponse q; q.response_processing_data = ResponseProcessingData(); b.add_question_response_record(q, BlockStatistics()); break; }
    case D_QR_EMPTY_QE: { QueryResponse q; q.query_extended = QueryResponseExtended(); q.response_extended = QueryResponseExtended(); q.time_offset = Timestamp(7, 5); b.add_question_response_record(q); break; }
    case D_QR_SIG: { QueryResponse q; q.qr_signature_index = s.sig; q.time_offset = Timestamp(5, 1); b.add_question_response_record(q); break; }
    case D_QR_FULL: { QueryResponse q; q.time_offset = Timestamp(9, 0); q.client_address_index = s.ip; q.client_port = 65535; q.transaction_id = 0; q.qr_signature_index = s.sig; q.client_hoplimit = 255; q.response_delay = -1; q.query_name_index = s.name; q.query_size = 0; q.response_size = 1u << 20;
        ResponseProcessingData rp; rp.bailiwick_index = s.name; rp.processing_flags = ResponseProcessingFlagsMask::from_cache; q.response_processing_data = rp; QueryResponseExtended e; e.question_index = s.qlist; e.answer_index = s.rrlist; e.additional_index = s.rrlist; q.query_extended = e;
        QueryResponseExtended e2; e2.authority_index = s.rrlist; q.response_extended = e2; q.asn = std::string(""); q.country_code = std::string("XX"); q.round_trip_time = INT64_MIN; b.add_question_response_record(q); break; }
    case D_QR_NOTHING: b.add_question_response_record(QueryResponse()); break;
    case D_AEC: { AddressEventCount a; a.ae_type = AddressEventTypeValues::icmpv6_packet_too_big; a.ae_code = 255; a.ae_address_index = s.ip; b.add_address_event_count(a); break; }
    case D_MM_EMPTY: b.add_malformed_message(MalformedMessage()); break;
    case D_MM_DATA: { MalformedMessage m; m.message_data_index = s.mmd; m.time_offset = Timestamp(3, 999); b.add_malformed_message(m); break; }
    case D_GENERIC_QR: b.add_question_response_record(P.qr[3]); break;
    }
}
static void run_direct(const std::vector<int>& ops, const Pools& P, Result& R, std::vector<BV>& out) {
    BlockParameters bp; bp.storage_parameters.max_block_items = 100000; bp.storage_parameters.ticks_per_second = 1000;
    std::vector<BlockParameters> bps = {bp}; FilePreamble fp(bps);
    std::vector<std::string> outs; size_t reported = 0; bool wrote = false;
    {
        CdnsExporter e(fp, MemSink{&outs}, CborOutputCompression::NO_COMPRESSION);
        CdnsBlock b(bp, 0); DState s;
        for (int op : ops) { d_apply(op, b, s, P); R.count("transitions"); }
        size_t items = b.get_item_count();
        size_t ret = e.write_block(b); reported += ret; wrote = items > 0;
        if ((ret > 0) != wrote) out.push_back({"return-sign", "write_block(block) returned " + std::to_string(ret) + " for a block with " + std::to_string(items) + " items"});
        // the block can be written a second time (value unchanged by writing)
        if (wrote) reported += e.write_block(b);
    }
    if (wrote) reported += 1;
    const std::string& bytes = outs.at(0);
    if (!wrote) { if (!bytes.empty()) out.push_back({"empty-output-has-bytes", "no block written but output has bytes"}); R.outcome("no-items"); return; }
    if (bytes.size() != reported) out.push_back({"byte-count", "write_block(block) calls reported " + std::to_string(reported) + " bytes, output has " + std::to_string(bytes.size())});
    try {
        ref::RFile rf = ref::read_file(bytes);
        if (rf.blocks.size() != 2) out.push_back({"block-count", "expected the block twice"});
        else if (ref::block_dump(rf.blocks[0]) != ref::block_dump(rf.blocks[1])) out.push_back({"rewrite-differs", "the same block written twice gives different content"});
        lib::LibFile lf = lib::read_bytes(bytes);
        if (lib::file_dump(lf) != lib::file_dump(rf)) { std::string l = lib::file_dump(lf), r = lib::file_dump(rf); size_t p = 0; while (p < l.size() && p < r.size() && l[p] == r[p]) p++;
            out.push_back({"library-vs-independent-reader", "readers disagree at " + std::to_string(p) + ": lib ..." + l.substr(p > 30 ? p - 30 : 0, 80) + " ref ..." + r.substr(p > 30 ? p - 30 : 0, 80)}); }
        R.outcome("valid:qr" + std::to_string(std::min<size_t>(rf.blocks[0].qrs.size(), 3)));
    } catch (ref::CborError& e) { std::string last = DN[ops.back()]; out.push_back({"not-wellformed-cbor", std::string("output is not well-formed CBOR: ") + e.what()}); }
    catch (ref::SchemaError& e) { out.push_back({"schema|" + consume_cls(e.what()), std::string("output violates the schema: ") + e.what()}); }
}

// ----------------------------------------------------------------------------- copy semantics (C19)
static std::string ser(CdnsBlock& b) { std::vector<std::string> outs; { CdnsEncoder e(MemSink{&outs}, CborOutputCompression::NO_COMPRESSION); b.write(e); } return outs.at(0); }

static void fill(CdnsBlock& b, int content, const Pools& P) {
    switch (content) {
    case 0: break;
    case 1: b.add_question_response_record(P.qr[0]); break;
    case 2: b.add_question_response_record(P.qr[0]); b.add_question_response_record(P.qr[3]); b.add_address_event_count(P.aec[0]); b.add_address_event_count(P.aec[1]); b.add_address_event_count(P.aec[0]); b.add_malformed_message(P.mm[0]); b.add_malformed_message(P.mm[3]); break;
    case 4: // tables that contain the same value twice followed by further distinct values (legal in a file; the reader stores entries as they come)
        b.add_question_response_record(P.qr[0]); b.add_question_response_record(P.qr[3]); b.add_malformed_message(P.mm[0]);
        { StringItem d; d.data = b.get_ip_address(0); b.m_ip_address.add_value(d); b.add_ip_address("after-duplicate-1"); b.add_ip_address("after-duplicate-2");
          StringItem n; n.data = b.get_name_rdata(0); b.m_name_rdata.add_value(n); b.add_name_rdata("name-after-duplicate");
          ClassType c0 = b.get_classtype(0); b.m_classtype.add_value(c0); ClassType c9; c9.type = 999; c9.class_ = 9; b.add_classtype(c9);
          RR r0 = b.get_rr(0); b.m_rr.add_value(r0); RR r9; r9.name_index = 0; r9.classtype_index = 0; r9.ttl = 99999; b.add_rr(r9);
          QueryResponseSignature s0 = b.get_qr_signature(0); b.m_qr_sig.add_value(s0); QueryResponseSignature s9; s9.server_port = 9999; b.add_qr_signature(s9); }
        break;
    case 7:   // as 5, but the source block is default-constructed: it has no explicit block-parameters index (see mk_block)
    case 5: // table entries and statistics but no record (an application fills tables first; get_item_count() is 0)
        b.add_ip_address("only-table-1"); b.add_ip_address("only-table-2"); b.add_name_rdata("only-name"); { ClassType c; c.type = 28; c.class_ = 1; b.add_classtype(c); Question q; q.name_index = 0; q.classtype_index = 0; b.add_question(q); RR r; r.name_index = 0; r.classtype_index = 0; r.ttl = 5; b.add_rr(r);
          QueryResponseSignature s; s.server_port = 53; b.add_qr_signature(s); MalformedMessageData m; m.server_port = 54; m.mm_payload = std::string("pl"); b.add_malformed_message_data(m); b.add_question_list({0}); b.add_rr_list({0}); }
        break;
    case 6: { BlockStatistics st; st.processed_messages = 7; st.malformed_items = 1; b.m_block_statistics = st; break; }   // statistics only
    case 3: for (int i = 0; i < 300; i++) { GenericQueryResponse q = P.qr[3]; q.client_ip = std::string("\x0a\x00", 2) + std::string(1, (char)(i >> 8)) + std::string(1, (char)i); q.query_name = std::string("\x04name", 5) + std::to_string(i); ClassType c; c.type = i; c.class_ = 1; q.query_classtype = c;
                q.server_port = i; q.response_answers = std::vector<GenericResourceRecord>{rr(*q.query_name, i, 1, (uint32_t)i, std::string("rd") + std::to_string(i))}; q.query_questions = std::vector<GenericResourceRecord>{rr(*q.query_name, i, 1)};
                b.add_question_response_record(q); GenericMalformedMessage m = P.mm[0]; m.server_port = i; b.add_malformed_message(m); } break;
    }
}
static CdnsBlock* mk_block(int content, BlockParameters& bp) { return content == 7 ? new CdnsBlock() : new CdnsBlock(bp, 0); }
static void refill_different(CdnsBlock& b) { for (int i = 0; i < 40; i++) { b.add_ip_address("other" + std::to_string(i)); b.add_name_rdata("othername" + std::to_string(i)); ClassType c; c.type = 9000 + i; c.class_ = 3; b.add_classtype(c); RR r; r.name_index = i; r.classtype_index = i; b.add_rr(r); Question q; q.name_index = i; q.classtype_index = i; b.add_question(q);
    QueryResponseSignature s; s.server_port = 7000 + i; b.add_qr_signature(s); MalformedMessageData m; m.server_port = 7000 + i; b.add_malformed_message_data(m); b.add_question_list({(index_t)i}); b.add_rr_list({(index_t)i, 0}); } }

// follow-up operations; each returns an observation string
enum COp { C_ADD_EXIST_IP, C_ADD_EXIST_CT, C_ADD_EXIST_NAME, C_ADD_EXIST_SIG, C_ADD_EXIST_Q, C_ADD_EXIST_RR, C_ADD_EXIST_MMD, C_ADD_EXIST_QLIST, C_ADD_EXIST_RRLIST, C_ADD_NEW, C_GET0, C_GENERIC_SHARED, C_AEC_AGAIN, C_WRITE, C_READ_GENERIC, C_ADD_EXIST_LAST, C_N };
static const char* CN[] = {"add_existing_ip", "add_existing_classtype", "add_existing_name", "add_existing_sig", "add_existing_question", "add_existing_rr", "add_existing_mmd", "add_existing_qlist", "add_existing_rrlist", "add_new", "get0", "generic_sharing", "aec_again", "write", "read_generic", "add_existing_last_entries"};
static std::string c_apply(int op, CdnsBlock& b, const Pools& P, CdnsBlockRead* rd) {
    std::ostringstream o;
    try {
        switch (op) {
        case C_ADD_EXIST_IP: if (b.m_ip_address.size()) { std::string v = b.get_ip_address(0); o << b.add_ip_address(v) << "/" << b.m_ip_address.size(); } break;
        case C_ADD_EXIST_CT: if (b.m_classtype.size()) { ClassType v = b.get_classtype(b.m_classtype.size() - 1); o << b.add_classtype(v) << "/" << b.m_classtype.size(); } break;
        case C_ADD_EXIST_NAME: if (b.m_name_rdata.size()) { std::string v = b.get_name_rdata(b.m_name_rdata.size() / 2); o << b.add_name_rdata(v) << "/" << b.m_name_rdata.size(); } break;
        case C_ADD_EXIST_SIG: if (b.m_qr_sig.size()) { auto v = b.get_qr_signature(0); o << b.add_qr_signature(v) << "/" << b.m_qr_sig.size(); } break;
        case C_ADD_EXIST_Q: if (b.m_qrr.size()) { auto v = b.get_question(0); o << b.add_question(v) << "/" << b.m_qrr.size(); } break;
        case C_ADD_EXIST_RR: if (b.m_rr.size()) { auto v = b.get_rr(b.m_rr.size() - 1); o << b.add_rr(v) << "/" << b.m_rr.size(); } break;
        case C_ADD_EXIST_MMD: if (b.m_malformed_message_data.size()) { auto v = b.get_malformed_message_data(0); o << b.add_malformed_message_data(v) << "/" << b.m_malformed_message_data.size(); } break;
        case C_ADD_EXIST_QLIST: if (b.m_qlist.size()) { auto v = b.get_question_list(0); o << b.add_question_list(v) << "/" << b.m_qlist.size(); } break;
        case C_ADD_EXIST_RRLIST: if (b.m_rrlist.size()) { auto v = b.get_rr_list(0); o << b.add_rr_list(v) << "/" << b.m_rrlist.size(); } break;
        case C_ADD_EXIST_LAST: {
            if (b.m_ip_address.size()) o << b.add_ip_address(b.get_ip_address(b.m_ip_address.size() - 1)) << ","; if (b.m_name_rdata.size()) o << b.add_name_rdata(b.get_name_rdata(b.m_name_rdata.size() - 1)) << ",";
            if (b.m_classtype.size()) o << b.add_classtype(b.get_classtype(b.m_classtype.size() - 1)) << ","; if (b.m_rr.size()) o << b.add_rr(b.get_rr(b.m_rr.size() - 1)) << ","; if (b.m_qr_sig.size()) o << b.add_qr_signature(b.get_qr_signature(b.m_qr_sig.size() - 1)) << ",";
            index_t idx = 0; for (size_t i = 0; i < b.m_ip_address.size(); i++) { StringItem k; k.data = b.get_ip_address(i); bool f = b.m_ip_address.find(k, idx); o << (f ? (long)idx : -1L) << "."; }
            o << "/" << b.m_ip_address.size() << "/" << b.m_name_rdata.size(); break; }
        case C_ADD_NEW: { o << b.add_ip_address("brand-new") << "," << b.add_name_rdata("brand-new-name"); ClassType c; c.type = 4242; c.class_ = 42; o << "," << b.add_classtype(c); break; }
        case C_GET0: o << "full=" << b.full() << ";bpi=" << b.get_block_parameters_index() << ";"; if (b.m_ip_address.size()) o << ref::hex(b.get_ip_address(0)); if (b.m_name_rdata.size()) o << "," << ref::hex(b.get_name_rdata(0)).substr(0, 40); break;
        case C_GENERIC_SHARED: o << b.add_question_response_record(P.qr[3]) << "/" << b.m_ip_address.size() << "/" << b.m_name_rdata.size() << "/" << b.m_qr_sig.size() << "/" << b.get_qr_count(); break;
        case C_AEC_AGAIN: o << b.add_address_event_count(P.aec[0]) << "/" << b.get_aec_count(); break;
        case C_WRITE: o << ref::hex(ser(b)).size(); o << ":" << std::hash<std::string>()(ser(b)); break;
        case C_READ_GENERIC: if (rd) { bool end = false; auto g = rd->read_generic_qr(end); o << end << lib::dump(g).substr(0, 200); auto m = rd->read_generic_mm(end); o << end << lib::dump(m); auto a = rd->read_generic_aec(end); o << end << (end ? std::string() : lib::aec_key(a)); } break;
        }
    } catch (std::exception& e) { o << "EXC:" << e.what(); }
    return o.str();
}

enum Way { W_COPY_CTOR, W_MOVE_CTOR, W_COPY_ASSIGN, W_MOVE_ASSIGN, W_READ_COPY_CTOR, W_READ_MOVE_CTOR, W_READ_COPY_ASSIGN, W_READ_MOVE_ASSIGN, W_READER_ASSIGN, W_N };
static const char* WN[] = {"copy_ctor", "move_ctor", "copy_assign", "move_assign", "read_copy_ctor", "read_move_ctor", "read_copy_assign", "read_move_assign", "reader_return_assign"};
enum Fate { F_KEPT, F_ADDED, F_CLEARED, F_REFILLED, F_DESTROYED, F_N };
static const char* FN[] = {"kept", "added_to", "cleared", "cleared_refilled", "destroyed"};

static std::string file_of(int content, const Pools& P, BlockParameters& bp) {
    std::vector<BlockParameters> bps = {bp}; FilePreamble fp(bps); std::vector<std::string> outs;
    { CdnsExporter e(fp, MemSink{&outs}, CborOutputCompression::NO_COMPRESSION); CdnsBlock b(bp, 0); fill(b, content, P); if (b.get_item_count() == 0) b.add_question_response_record(P.qr[1]); e.write_block(b); }
    return outs.at(0);
}

static std::string printable(const std::string& x) { for (unsigned char c : x.substr(0, 80)) if (c < 32 || c > 126) return "0x" + ref::hex(x.substr(0, 40)); return x.substr(0, 80); }
// old content of an assignment target: the values that C_ADD_NEW, C_GENERIC_SHARED and C_AEC_AGAIN add later, in every table
static void prefill_target(CdnsBlock& b, const Pools& P) {
    b.add_ip_address("brand-new"); b.add_name_rdata("brand-new-name"); ClassType c; c.type = 4242; c.class_ = 42; b.add_classtype(c);
    BlockParameters full; full.storage_parameters.max_block_items = 1000000; CdnsBlock tmp(full, 0); tmp.add_question_response_record(P.qr[3]); tmp.add_address_event_count(P.aec[0]);
    // every table entry a fully-hinted block derives from qr[3] (names, addresses, class/types, RRs, lists, signatures)
    for (size_t i = 0; i < tmp.m_ip_address.size(); i++) b.add_ip_address(tmp.get_ip_address(i)); for (size_t i = 0; i < tmp.m_name_rdata.size(); i++) b.add_name_rdata(tmp.get_name_rdata(i));
    for (size_t i = 0; i < tmp.m_classtype.size(); i++) b.add_classtype(tmp.get_classtype(i)); for (size_t i = 0; i < tmp.m_qr_sig.size(); i++) b.add_qr_signature(tmp.get_qr_signature(i));
}
static void run_copy(int content, int way, int fate, const std::vector<int>& ops, const Pools& P, Result& R, std::vector<BV>& out) {
    BlockParameters bp; bp.storage_parameters.max_block_items = 1000000;
    BlockParameters bp_other; bp_other.storage_parameters.max_block_items = 2; bp_other.storage_parameters.ticks_per_second = 1000; bp_other.storage_parameters.storage_hints.query_response_hints = 0x5; bp_other.storage_parameters.storage_hints.other_data_hints = 0;
    std::string tag = std::string(WN[way]) + "|" + FN[fate];
    std::vector<std::string> obs_copy, obs_fresh; std::string src_before, src_after;
    if (way <= W_MOVE_ASSIGN) {
        std::unique_ptr<CdnsBlock> src(mk_block(content, bp)); fill(*src, content, P);
        std::string src_pre = ser(*src);
        std::unique_ptr<CdnsBlock> cp;
        switch (way) {
        case W_COPY_CTOR: cp.reset(new CdnsBlock(*src)); break; case W_MOVE_CTOR: cp.reset(new CdnsBlock(std::move(*src))); break;
        // the target of an assignment already holds a block with the SAME parameters index but other parameters (tick rate, block size, hints)
        // ... and statistics of its own, an address event and a malformed message: everything the target held must be gone afterwards
        // (the index is the source's or another one, by fate). The target's old content includes the very values the later operations add ("brand-new",
        // the records of qr[3]): whatever look-up structure the target had must not answer for values the assigned content doesn't hold
        case W_COPY_ASSIGN: cp.reset(new CdnsBlock(bp_other, fate % 2)); prefill_target(*cp, P); cp->add_ip_address("to-be-overwritten"); cp->add_question_response_record(P.qr[4], P.stats[1]); cp->add_address_event_count(P.aec[2]); { auto* got = &(*cp = *src); if (got != cp.get()) out.push_back({tag + "|assignment-yields-another-object", "the value of the assignment expression is not the assigned-to block"}); } break;
        case W_MOVE_ASSIGN: cp.reset(new CdnsBlock(bp_other, (fate + 1) % 2)); prefill_target(*cp, P); cp->add_name_rdata("to-be-overwritten"); cp->add_malformed_message(P.mm[0], P.stats[2]); cp->add_address_event_count(P.aec[2]); { auto* got = &(*cp = std::move(*src)); if (got != cp.get()) out.push_back({tag + "|assignment-yields-another-object", "the value of the assignment expression is not the assigned-to block"}); } break;
        }
        if (fate == F_KEPT && (way == W_COPY_CTOR || way == W_COPY_ASSIGN)) { CdnsBlock& alias = *cp; *cp = alias; }   // self-assignment keeps the value
        if ((way == W_COPY_CTOR || way == W_COPY_ASSIGN) && ser(*src) != src_pre) out.push_back({tag + "|copying-changed-the-source", "the source block serialises differently after it was copied"});
        switch (fate) {
        case F_KEPT: break; case F_ADDED: src->add_ip_address("src-only"); src->add_name_rdata("src-only-name"); src->add_question_response_record(P.qr[4]); break;
        case F_CLEARED: src->clear(); break; case F_REFILLED: src->clear(); refill_different(*src); break; case F_DESTROYED: src.reset(); break;
        }
        if (src) src_before = ser(*src);
        std::unique_ptr<CdnsBlock> fresh(mk_block(content, bp)); fill(*fresh, content, P);
        obs_copy.push_back(ser(*cp)); obs_fresh.push_back(ser(*fresh));
        for (int op : ops) { obs_copy.push_back(c_apply(op, *cp, P, nullptr)); obs_fresh.push_back(c_apply(op, *fresh, P, nullptr)); R.count("transitions", 2); }
        obs_copy.push_back(ser(*cp)); obs_fresh.push_back(ser(*fresh));
        if (src) src_after = ser(*src);
    } else {
        std::string bytes = file_of(content, P, bp);
        auto read_one = [&](std::unique_ptr<std::istringstream>& is, std::unique_ptr<CdnsReader>& rd) { is.reset(new std::istringstream(bytes)); rd.reset(new CdnsReader(*is)); bool eof; return rd->read_block(eof); };
        std::unique_ptr<std::istringstream> is1, is2; std::unique_ptr<CdnsReader> r1, r2;
        std::unique_ptr<CdnsBlockRead> src, cp;
        if (way == W_READER_ASSIGN) { cp.reset(new CdnsBlockRead()); cp->m_block_statistics = *P.stats[2]; is1.reset(new std::istringstream(bytes)); r1.reset(new CdnsReader(*is1)); bool eof; *cp = r1->read_block(eof); if (fate == F_DESTROYED) { r1.reset(); is1.reset(); } }
        else {
            src.reset(new CdnsBlockRead(read_one(is1, r1))); std::string src_pre = ser(*src);
            switch (way) {
            case W_READ_COPY_CTOR: cp.reset(new CdnsBlockRead(*src)); break; case W_READ_MOVE_CTOR: cp.reset(new CdnsBlockRead(std::move(*src))); break;
            case W_READ_COPY_ASSIGN: case W_READ_MOVE_ASSIGN: { // the target already holds a block read from ANOTHER file (other parameters, same index 0)
                std::string other = file_of(1, P, bp_other); std::istringstream io(other); CdnsReader ro(io); bool eo; cp.reset(new CdnsBlockRead(ro.read_block(eo))); cp->m_block_statistics = *P.stats[1];
                { auto* got = way == W_READ_COPY_ASSIGN ? &(*cp = *src) : &(*cp = std::move(*src)); if (got != cp.get()) out.push_back({tag + "|assignment-yields-another-object", "the value of the assignment expression is not the assigned-to block"}); } break; }
            }
            if (fate == F_KEPT && (way == W_READ_COPY_CTOR || way == W_READ_COPY_ASSIGN)) { CdnsBlockRead& alias = *cp; *cp = alias; }   // self-assignment keeps the value
            if ((way == W_READ_COPY_CTOR || way == W_READ_COPY_ASSIGN) && ser(*src) != src_pre) out.push_back({tag + "|copying-changed-the-source", "the source block serialises differently after it was copied"});
            switch (fate) {
            case F_KEPT: break; case F_ADDED: src->add_ip_address("src-only"); src->add_name_rdata("src-only-name"); break;
            case F_CLEARED: src->clear(); break; case F_REFILLED: src->clear(); refill_different(*src); break; case F_DESTROYED: src.reset(); r1.reset(); is1.reset(); break;
            }
            if (src) src_before = ser(*src);
        }
        std::unique_ptr<CdnsBlockRead> fresh(new CdnsBlockRead(read_one(is2, r2)));
        obs_copy.push_back(ser(*cp)); obs_fresh.push_back(ser(*fresh));
        for (int op : ops) { obs_copy.push_back(c_apply(op, *cp, P, cp.get())); obs_fresh.push_back(c_apply(op, *fresh, P, fresh.get())); R.count("transitions", 2); }
        obs_copy.push_back(lib::block_dump(*cp)); obs_fresh.push_back(lib::block_dump(*fresh));
        obs_copy.push_back(ser(*cp)); obs_fresh.push_back(ser(*fresh));
        if (src) src_after = ser(*src);
    }
    for (size_t i = 0; i < obs_copy.size(); i++) if (obs_copy[i] != obs_fresh[i]) {
        std::string which = i == 0 ? "initial-serialisation" : i <= ops.size() ? CN[ops[i - 1]] : "final-content";
        out.push_back({tag + "|" + which, std::string(which) + " differs between the copy and a freshly built block: copy " + printable(obs_copy[i]) + " fresh " + printable(obs_fresh[i])}); break; }
    if (src_before != src_after) out.push_back({tag + "|source-affected", "operations on the copy changed the source block"});
}

int main(int argc, char** argv) {
    Args a = Args::parse(argc, argv); Result total; bool T = a.thorough();
    auto done = [&](int rc) { a.finish(total); return rc; };
    const Pools P = make_pools(1000000);
    auto parse_ops = [](const std::string& s) { std::vector<int> v; size_t p = 0; while (p < s.size()) { size_t e = s.find(',', p); if (e == std::string::npos) e = s.size(); if (e > p) v.push_back(atoi(s.substr(p, e - p).c_str())); p = e + 1; } return v; };
    auto ops_str = [](const std::vector<int>& v) { std::string s; for (int x : v) s += std::to_string(x) + ","; return s; };
    auto kvparse = [](const std::string& s) { std::map<std::string, std::string> kv; size_t p = 0; while (p < s.size()) { size_t e = s.find(';', p); if (e == std::string::npos) e = s.size(); std::string part = s.substr(p, e - p); size_t q = part.find('='); if (q != std::string::npos) kv[part.substr(0, q)] = part.substr(q + 1); p = e + 1; } return kv; };

    if (a.mode == "tables") {
        auto tabs = tables();
        auto run_seq = [&](size_t ti, const std::vector<int>& ops, Result& R) { std::string rep = "table=" + std::to_string(ti) + ";ops=" + ops_str(ops); set_note(rep); std::vector<BV> out; run_table_seq(tabs[ti], ops, R, out); R.count("traces"); R.count("nontrivial");
            for (auto& v : out) R.violation("tables|" + v.key, v.what, rep); R.outcome(std::string(tabs[ti].name) + (out.empty() ? ":ok" : ":viol")); };
        auto run_growth = [&](size_t table, Result& R) {
            struct { size_t table; } t{table};
                // growth: N distinct values then each re-added (deque chunk boundaries, rehash) on three tables with cheap distinct values
                set_note("growth=1;table=" + std::to_string(t.table)); size_t N = T ? 200000 : 70000; /* beyond 2^16 entries: an index narrower than index_t wraps there */ CdnsBlock b; std::string bad;
                for (size_t round = 0; round < 2 && bad.empty(); round++) for (size_t i = 0; i < N; i++) {
                    index_t got = 0;
                    switch (t.table) {
                    case 0: got = b.add_ip_address("ip" + std::to_string(i)); break; case 1: { ClassType c; c.type = i & 0xffff; c.class_ = i >> 16; got = b.add_classtype(c); break; }
                    case 2: got = b.add_name_rdata(std::string(i % 50, 'x') + std::to_string(i)); break; case 3: { QueryResponseSignature s; s.query_ancount = i; if (i & 1) s.server_port = i & 0xffff; got = b.add_qr_signature(s); break; }
                    case 4: got = b.add_question_list({(index_t)i, (index_t)(i / 3)}); break; case 5: { Question q; q.name_index = i; q.classtype_index = i / 7; got = b.add_question(q); break; }
                    case 6: got = b.add_rr_list({(index_t)(i * 2)}); break; case 7: { RR r; r.name_index = i; if (i % 3 == 0) r.ttl = i; if (i % 5 == 0) r.rdata_index = i; got = b.add_rr(r); break; }
                    case 8: { MalformedMessageData m; m.mm_payload = "p" + std::to_string(i); got = b.add_malformed_message_data(m); break; }
                    }
                    R.count("transitions");
                    if (got != i) { bad = "value #" + std::to_string(i) + " (round " + std::to_string(round) + ") got index " + std::to_string(got); break; }
                }
                // the tables of a copy behave like those of the block itself: the first, a middle and the LAST value added again on a copy keep their indices and do not grow the table
                if (bad.empty()) { CdnsBlock c(b); size_t before = 0;
                    switch (t.table) { case 0: before = c.m_ip_address.size(); break; case 1: before = c.m_classtype.size(); break; case 2: before = c.m_name_rdata.size(); break; case 3: before = c.m_qr_sig.size(); break; case 4: before = c.m_qlist.size(); break; case 5: before = c.m_qrr.size(); break; case 6: before = c.m_rrlist.size(); break; case 7: before = c.m_rr.size(); break; default: before = c.m_malformed_message_data.size(); }
                    for (size_t i : {(size_t)0, N / 2, N - 1}) { index_t got = 0;
                        switch (t.table) {
                        case 0: got = c.add_ip_address("ip" + std::to_string(i)); break; case 1: { ClassType x; x.type = i & 0xffff; x.class_ = i >> 16; got = c.add_classtype(x); break; }
                        case 2: got = c.add_name_rdata(std::string(i % 50, 'x') + std::to_string(i)); break; case 3: { QueryResponseSignature sg; sg.query_ancount = i; if (i & 1) sg.server_port = i & 0xffff; got = c.add_qr_signature(sg); break; }
                        case 4: got = c.add_question_list({(index_t)i, (index_t)(i / 3)}); break; case 5: { Question q; q.name_index = i; q.classtype_index = i / 7; got = c.add_question(q); break; }
                        case 6: got = c.add_rr_list({(index_t)(i * 2)}); break; case 7: { RR r; r.name_index = i; if (i % 3 == 0) r.ttl = i; if (i % 5 == 0) r.rdata_index = i; got = c.add_rr(r); break; }
                        case 8: { MalformedMessageData m; m.mm_payload = "p" + std::to_string(i); got = c.add_malformed_message_data(m); break; }
                        }
                        if (got != i) { bad = "on a copy of the block value #" + std::to_string(i) + " (of " + std::to_string(before) + ") got index " + std::to_string(got); break; } } }
                R.count("traces"); R.count("nontrivial");
                if (!bad.empty()) R.violation(std::string("tables|growth|") + tabs[t.table].name, bad, "growth=1;table=" + std::to_string(t.table));
                R.outcome("growth-ok");
        };
        auto run_hash = [&](Result& R) {
                // hash / equality over the signature pool (base, single-member and pair-of-member variants) and the other keyed types
                set_note("hash=1"); auto sp = sig_pool(true); uint64_t n = 0;
                for (size_t i = 0; i < sp.size(); i++) for (size_t j = 0; j < sp.size(); j++) { bool eq = sp[i] == sp[j]; bool same = canon(sp[i]) == canon(sp[j]); n++;
                    if (eq != same) R.violation("tables|equality|qr_sig", "operator== says " + std::to_string(eq) + " for " + canon(sp[i]) + " vs " + canon(sp[j]), "hash=1");
                    if (eq && hash_value(sp[i]) != hash_value(sp[j])) R.violation("tables|hash|qr_sig", "equal signatures hash differently", "hash=1"); }
                auto rp = rr_pool(); for (auto& x : rp) for (auto& y : rp) { n++; if ((x == y) != (canon(x) == canon(y))) R.violation("tables|equality|rr", canon(x) + " vs " + canon(y), "hash=1"); if (x == y && hash_value(x) != hash_value(y)) R.violation("tables|hash|rr", "equal rr hash differently", "hash=1"); }
                auto mp = mmd_pool(); for (auto& x : mp) for (auto& y : mp) { n++; if ((x == y) != (canon(x) == canon(y))) R.violation("tables|equality|mmd", canon(x) + " vs " + canon(y), "hash=1"); if (x == y && hash_value(x) != hash_value(y)) R.violation("tables|hash|mmd", "equal mmd hash differently", "hash=1"); }
                // boundary grids for the small keyed types: values that differ only above bit 8 / 16 of a member, swapped members, list order, embedded NUL bytes
                { static const unsigned G[] = {0, 1, 2, 3, 40, 41, 57, 255, 256, 257, 511, 512, 768, 1232, 1488, 4096, 4352, 65535}; std::vector<ClassType> cp;
                  for (unsigned t : G) for (unsigned c : G) { ClassType x; x.type = t; x.class_ = c; cp.push_back(x); }
                  for (auto& x : cp) for (auto& y : cp) { n++; if ((x == y) != (canon(x) == canon(y))) R.violation("tables|equality|classtype", canon(x) + " vs " + canon(y) + ": operator== says " + std::to_string(x == y), "hash=1"); if (x == y && hash_value(x) != hash_value(y)) R.violation("tables|hash|classtype", "equal class/types hash differently", "hash=1"); } }
                { static const uint64_t G[] = {0, 1, 255, 256, 65535, 65536, 0xffffffffULL}; std::vector<Question> qp; for (uint64_t a : G) for (uint64_t b2 : G) { Question q; q.name_index = (index_t)a; q.classtype_index = (index_t)b2; qp.push_back(q); }
                  for (auto& x : qp) for (auto& y : qp) { n++; if ((x == y) != (canon(x) == canon(y))) R.violation("tables|equality|question", canon(x) + " vs " + canon(y), "hash=1"); if (x == y && hash_value(x) != hash_value(y)) R.violation("tables|hash|question", "equal questions hash differently", "hash=1"); } }
                { std::vector<std::vector<index_t>> ls = {{}, {0}, {1}, {0, 1}, {1, 0}, {0, 0}, {256}, {1, 256}, {256, 1}, {65536}, {0, 1, 2}, {2, 1, 0}, {0, 2, 1}, {1, 1}, {1}, {0xffffffffu}}; std::vector<IndexListItem> ip; for (auto& l : ls) { IndexListItem it; it.list = l; ip.push_back(it); }
                  for (auto& x : ip) for (auto& y : ip) { n++; if ((x == y) != (x.list == y.list)) R.violation("tables|equality|index-list", canon(x.list) + " vs " + canon(y.list), "hash=1"); if (x == y && hash_value(x) != hash_value(y)) R.violation("tables|hash|index-list", "equal lists hash differently", "hash=1"); } }
                { std::vector<std::string> ss = {std::string(), std::string("\0", 1), "a", std::string("a\0", 2), std::string("\0a", 2), std::string("a\0b", 3), std::string("a\0c", 3), "ab", "ba", std::string(300, 'x'), std::string(300, 'x') + "y", std::string("\xff\xff", 2)}; std::vector<StringItem> sp2; for (auto& v : ss) { StringItem it; it.data = v; sp2.push_back(it); }
                  for (auto& x : sp2) for (auto& y : sp2) { n++; if ((x == y) != (x.data == y.data)) R.violation("tables|equality|string", ref::hex(x.data).substr(0, 20) + " vs " + ref::hex(y.data).substr(0, 20), "hash=1"); if (x == y && hash_value(x) != hash_value(y)) R.violation("tables|hash|string", "equal strings hash differently", "hash=1"); } }
                R.count("traces", n); R.count("nontrivial", n); R.outcome("hash-equality");
        };
        if (!a.replay.empty()) { auto kv = kvparse(slurp(a.replay)); std::string s = slurp(a.replay); Pool rp(1, 300);
            rp.run(1, [&](uint64_t, Result& R) { if (kv.count("growth")) run_growth(atoi(kv["table"].c_str()), R); else if (kv.count("hash")) run_hash(R); else run_seq(atoi(kv["table"].c_str()), parse_ops(kv["ops"]), R); }, [&](uint64_t, const std::string& d, Result& R) { R.violation("tables|" + crash_key(d), d.substr(0, 1500), s); }, total); return done(total.viol.empty() ? 0 : 1); }
        int D = T ? 6 : 5;
        struct Task { int kind; size_t table; int o1, o2; };
        std::vector<Task> tasks;
        for (size_t t = 0; t < tabs.size(); t++) { int A = (int)tabs[t].pool_size + 6; for (int i = 0; i < A; i++) for (int j = 0; j < A; j++) tasks.push_back({0, t, i, j}); tasks.push_back({1, t, 0, 0}); }
        tasks.push_back({2, 0, 0, 0});
        Pool pool(a.jobs, 300);
        pool.run(tasks.size(), [&](uint64_t ti, Result& R) {
            if (a.expired()) { R.deadline_hit = true; return; }
            const Task& t = tasks[ti];
            if (t.kind == 0) {
                int A = (int)tabs[t.table].pool_size + 6; std::vector<int> ops = {t.o1, t.o2};
                std::function<void(int)> rec = [&](int d) { run_seq(t.table, ops, R); if (d == D) return; for (int i = 0; i < A; i++) { ops.push_back(i); rec(d + 1); ops.pop_back(); } };
                rec(2); R.count("states");
                if (ti % 97 == 0) R.sample("table=" + std::string(tabs[t.table].name) + ";prefix=" + std::to_string(t.o1) + "," + std::to_string(t.o2) + ";depth<=" + std::to_string(D));
            } else if (t.kind == 1) {
                run_growth(t.table, R);
            } else {
                run_hash(R);

            }
        }, [&](uint64_t, const std::string& d, Result& R) { R.violation("tables|" + crash_key(d), d.substr(0, 1500), pool.last_note); }, total);
        total.n["evaluations"] = total.n["traces"];
        return done(0);
    }

    if (a.mode == "direct") {
        auto run_seq = [&](const std::vector<int>& ops, Result& R) { std::string rep = "ops=" + ops_str(ops); set_note(rep); std::vector<BV> out; run_direct(ops, P, R, out); R.count("traces"); R.count("nontrivial");
            std::string names; for (int o : ops) names += std::string(DN[o]) + ","; for (auto& v : out) R.violation("direct|" + v.key, v.what + " after " + names, rep); };
        // argument values outside the usual form: record times whose tick part is not reduced below the tick rate (an application that counts nanoseconds in a
        // microsecond file). Whatever the library stores for them, the output must stay a schema-valid document (time offsets are unsigned integers); content is not judged.
        auto run_times = [&](uint64_t idx, Result& R) {
            static const uint64_t TK[] = {0, 999999, 1000000, 3000000, 1ULL << 32}; int path = idx % 2, k2 = (idx / 2) % 2, k1 = (idx / 4) % 2; uint64_t b = (idx / 8) % 10, a_ = (idx / 80) % 10;
            Timestamp t1(5 + a_ / 5, TK[a_ % 5]), t2(5 + b / 5, TK[b % 5]); std::string rep = "times=" + std::to_string(idx); set_note(rep);
            BlockParameters bp; std::vector<BlockParameters> bps = {bp}; FilePreamble fp(bps); std::vector<std::string> outs;
            try { CdnsExporter e(fp, MemSink{&outs}, CborOutputCompression::NO_COMPRESSION); CdnsBlock blk(bp, 0);
                  auto put = [&](int kind, const Timestamp& t) { if (kind == 0) { GenericQueryResponse q = P.qr[1]; q.ts = t; if (path) blk.add_question_response_record(q); else e.buffer_qr(q); } else { GenericMalformedMessage m = P.mm[0]; m.ts = t; if (path) blk.add_malformed_message(m); else e.buffer_mm(m); } };
                  put(k1, t1); put(k2, t2); if (path) e.write_block(blk); else e.write_block(); }
            catch (std::exception&) { R.count("traces"); R.outcome("times:refused"); return; }   // refusing such a value is fine
            R.count("traces"); R.count("nontrivial");
            if (outs.empty() || outs[0].empty()) { R.outcome("times:no-output"); return; }
            try { ref::read_file(outs[0]); R.outcome("times:valid"); } catch (std::exception& x) { R.violation("direct|unreduced-ticks|invalid-output", std::string("records at ") + std::to_string(t1.m_secs) + "s+" + std::to_string(t1.m_ticks) + " and " + std::to_string(t2.m_secs) + "s+" + std::to_string(t2.m_ticks) + " ticks (" + (path ? "direct block" : "exporter") + "): the output is not a valid document: " + x.what(), rep); R.outcome("times:invalid"); } };
        if (!a.replay.empty()) { std::string s = slurp(a.replay); auto kv = kvparse(s); Pool rp(1, 60);
            rp.run(1, [&](uint64_t, Result& R) { if (kv.count("times")) run_times(strtoull(kv["times"].c_str(), nullptr, 10), R); else run_seq(parse_ops(kv["ops"]), R); }, [&](uint64_t, const std::string& d, Result& R) { R.violation("direct|" + crash_key(d), d.substr(0, 1500), s); }, total); return done(total.viol.empty() ? 0 : 1); }
        int D = T ? 5 : 4;
        std::vector<std::pair<int, int>> tasks; for (int i = 0; i < D_N; i++) for (int j = 0; j < D_N; j++) tasks.push_back({i, j});
        Pool pool(a.jobs, 300);
        pool.run(tasks.size(), [&](uint64_t ti, Result& R) {
            if (a.expired()) { R.deadline_hit = true; return; }
            // enabledness is decided by replaying the state machine of indices (cheap)
            std::vector<int> ops;
            std::function<void(DState, int)> rec = [&](DState s, int d) {
                if (d >= 2 || d == 0) { if (!(d == 0)) run_seq(ops, R); }
                if (d == D) return;
                for (int o = 0; o < D_N; o++) { if (d == 0 && o != tasks[ti].first) continue; if (d == 1 && o != tasks[ti].second) continue; if (!d_enabled(o, s)) continue;
                    DState n = s;
                    // advance index bookkeeping without a block: mirror of d_apply's effects on DState
                    switch (o) { case D_IP0: if (n.ip < 0) n.ip = 0; break; case D_CT0: if (n.ct < 0) n.ct = 0; break; case D_NAME0: if (n.name < 0) n.name = 0; break; case D_SIG_EMPTY: case D_SIG_PORT: case D_SIG_FULL: n.sig = 0; break;
                                 case D_QLIST_EMPTY: case D_QLIST_Q0: n.qlist = 0; break; case D_RRLIST_EMPTY: case D_RRLIST_R0: n.rrlist = 0; break; case D_QUESTION: n.q = 0; break; case D_RR_MIN: case D_RR_FULL: n.r = 0; break; case D_MMD_EMPTY: case D_MMD_FULL: n.mmd = 0; break; default: break; }
                    ops.push_back(o); rec(n, d + 1); ops.pop_back(); }
            };
            rec(DState(), 0); R.count("states");
            if (ti % 53 == 0) R.sample(std::string("prefix=") + DN[tasks[ti].first] + "," + DN[tasks[ti].second] + ";depth<=" + std::to_string(D));
        }, [&](uint64_t, const std::string& d, Result& R) { R.violation("direct|" + crash_key(d), d.substr(0, 1500), pool.last_note); }, total);
        // single-operation histories
        for (int i = 0; i < D_N; i++) if (d_enabled(i, DState())) run_seq({i}, total);
        { Pool tp(a.jobs, 120); tp.run(800 / 50, [&](uint64_t ti, Result& R) { for (uint64_t i = ti * 50; i < ti * 50 + 50; i++) run_times(i, R); }, [&](uint64_t, const std::string& d, Result& R) { R.violation("direct|unreduced-ticks|" + crash_key(d), d.substr(0, 1500), tp.last_note); }, total); }
        total.n["evaluations"] = total.n["traces"];
        return done(0);
    }

    if (a.mode == "copy") {
        auto run_one = [&](int content, int way, int fate, const std::vector<int>& ops, Result& R) {
            std::string rep = "content=" + std::to_string(content) + ";way=" + std::to_string(way) + ";fate=" + std::to_string(fate) + ";ops=" + ops_str(ops); set_note(rep);
            std::vector<BV> out; run_copy(content, way, fate, ops, P, R, out); R.count("traces"); R.count("nontrivial");
            for (auto& v : out) R.violation("copy|" + v.key, v.what + " [content " + std::to_string(content) + "]", rep);
            R.outcome(std::string(WN[way]) + (out.empty() ? ":ok" : ":viol"));
        };
        if (!a.replay.empty()) { std::string s = slurp(a.replay); auto kv = kvparse(s); Pool rp(1, 120);
            rp.run(1, [&](uint64_t, Result& R) { run_one(atoi(kv["content"].c_str()), atoi(kv["way"].c_str()), atoi(kv["fate"].c_str()), parse_ops(kv["ops"]), R); },
                   [&](uint64_t, const std::string& d, Result& R) { auto k = crash_key(d); R.violation(std::string("copy|") + WN[atoi(kv["way"].c_str())] + "|" + FN[atoi(kv["fate"].c_str())] + "|" + k, d.substr(0, 2000), s); }, total); return done(total.viol.empty() ? 0 : 1); }
        struct Task { int content, way, fate, o1; };
        std::vector<Task> tasks;
        for (int c = 0; c < 8; c++) for (int w = 0; w < W_N; w++) for (int f = 0; f < F_N; f++) { if (w == W_READER_ASSIGN && !(f == F_KEPT || f == F_DESTROYED)) continue; for (int o = -1; o < C_N; o++) tasks.push_back({c, w, f, o}); }
        int D = T ? 3 : 2;
        Pool pool(a.jobs, 300);
        pool.run(tasks.size(), [&](uint64_t ti, Result& R) {
            if (a.expired()) { R.deadline_hit = true; return; }
            const Task& t = tasks[ti];
            if (t.o1 < 0) { run_one(t.content, t.way, t.fate, {}, R); return; }
            std::vector<int> ops = {t.o1};
            std::function<void(int)> rec = [&](int d) { run_one(t.content, t.way, t.fate, ops, R); if (d == D || (t.content == 3 && d >= 2)) return; for (int o = 0; o < C_N; o++) { ops.push_back(o); rec(d + 1); ops.pop_back(); } };
            rec(1); R.count("states");
            if (ti % 131 == 0) R.sample(std::string("content=") + std::to_string(t.content) + ";way=" + WN[t.way] + ";source=" + FN[t.fate] + ";first op=" + CN[t.o1]);
        }, [&](uint64_t ti, const std::string& d, Result& R) { const Task& t = tasks[ti]; R.violation(std::string("copy|") + WN[t.way] + "|" + FN[t.fate] + "|" + crash_key(d), d.substr(0, 2000), pool.last_note); }, total);
        total.n["evaluations"] = total.n["traces"];
        return done(0);
    }
    fprintf(stderr, "unknown mode\n"); return done(2);
}

std::string consume_cls(const std::string& m) { std::string c; for (char ch : m) { if (isdigit((unsigned char)ch)) { if (c.empty() || c.back() != '#') c.push_back('#'); } else c.push_back(ch); } return c.substr(0, 60); }
