// Drives every public read-side entry point over one untrusted input (C03). Never throws.
#pragma once
#include "util.hpp"
#include "libdump.hpp"
#include <sstream>

namespace consume {
using namespace CDNS;

inline std::string cls(const std::string& m) { std::string c; for (char ch : m) { if (isdigit((unsigned char)ch)) { if (c.empty() || c.back() != '#') c.push_back('#'); } else c.push_back(ch); } return c.substr(0, 48); }

static volatile size_t g_sink; // keeps renderer output alive
inline void use(const std::string& s) { g_sink += s.size(); }

// decoder-level: each operation as first call, then skip_item until the input is exhausted
inline std::string decoder_ops(const std::string& in) {
    std::string out;
    for (int op = 0; op < 11; op++) {
        std::istringstream is(in); std::string r;
        try {
            // on the heap (the driver asks the allocator to fill fresh memory with a fixed byte): whatever a defective decoder reads beyond the buffered
            // data is the same in every process, so a finding replays; after every call the cursor must not have passed the end of the buffered data
            std::unique_ptr<CdnsDecoder> dp(new CdnsDecoder(is)); CdnsDecoder& d = *dp; bool indef;
            auto cursor_ok = [&]() { return PEEK(d, (bool)(o.m_p <= o.m_end), true); };
            switch (op) {
            case 0: d.peek_type(); break; case 1: d.read_unsigned(); break; case 2: d.read_negative(); break; case 3: d.read_integer(); break;
            case 4: d.read_bool(); break; case 5: use(d.read_bytestring()); break; case 6: use(d.read_textstring()); break;
            case 7: d.read_array_start(indef); break; case 8: d.read_map_start(indef); break; case 9: d.read_break(); break; case 10: d.skip_item(); break;
            }
            if (!cursor_ok()) throw std::logic_error("CURSOR");
            for (int i = 0; i < 64; i++) { d.skip_item(); if (!cursor_ok()) throw std::logic_error("CURSOR"); }
            r = "k";
        } catch (CdnsDecoderEnd&) { r = "e"; } catch (std::logic_error& le) { r = std::string(le.what()) == "CURSOR" ? "CURSOR-PAST-END" : "x"; } catch (std::exception&) { r = "x"; }
        out += r;
    }
    return out;
}

inline void render_block(CdnsBlockRead& b) {
    use(b.string()); use(b.m_block_preamble.string());
    if (b.m_block_statistics) use(b.m_block_statistics->string());
    for (auto& x : b.m_classtype) use(x.string());
    for (auto& x : b.m_qr_sig) use(x.string());
    for (auto& x : b.m_qrr) use(x.string());
    for (auto& x : b.m_rr) use(x.string());
    for (auto& x : b.m_malformed_message_data) use(x.string());
    for (auto& x : b.m_query_responses) { use(x.string()); if (x.response_processing_data) use(x.response_processing_data->string()); if (x.query_extended) use(x.query_extended->string()); if (x.response_extended) use(x.response_extended->string()); }
    for (auto& x : b.m_address_event_counts) { AddressEventCount a = x.first; use(a.string()); }
    for (auto& x : b.m_malformed_messages) use(x.string());
}

// reader-level: header, every block, every generic record, every renderer
inline std::string reader_all(const std::string& in, size_t max_blocks = 100000) {
    std::istringstream is(in); std::string r; size_t nb = 0, nrec = 0;
    try {
        std::unique_ptr<CdnsReader> rdp(new CdnsReader(is)); CdnsReader& rd = *rdp;
        use(rd.m_file_preamble.string());
        for (auto& bp : rd.m_file_preamble.m_block_parameters) { use(bp.string()); use(bp.storage_parameters.string()); use(bp.storage_parameters.storage_hints.string()); if (bp.collection_parameters) use(bp.collection_parameters->string()); }
        r = "hdr;";
        bool eof = false;
        while (nb < max_blocks) {
            CdnsBlockRead b = rd.read_block(eof);
            if (eof) { r += "eof"; break; }
            nb++;
            render_block(b);
            // generic accessors: each kind independently guarded (an exception in one must not hide the others)
            try { bool end = false; for (;;) { auto g = b.read_generic_qr(end); if (end) break; nrec++; use(g.string()); } } catch (CdnsDecoderEnd&) { r += "qE;"; } catch (std::exception& e) { r += "qX;"; }
            try { bool end = false; for (;;) { auto g = b.read_generic_aec(end); if (end) break; nrec++; use(g.string()); } } catch (std::exception& e) { r += "aX;"; }
            try { bool end = false; for (;;) { auto g = b.read_generic_mm(end); if (end) break; nrec++; use(g.string()); } } catch (std::exception& e) { r += "mX;"; }
            // copies of what the reader returned (value semantics on untrusted content)
            CdnsBlockRead c(b); use(c.string());
            // ... and a block that was moved out of an object which is gone afterwards (containers of blocks do this): all three record kinds are read from it
            { std::unique_ptr<CdnsBlockRead> src(new CdnsBlockRead(b)); CdnsBlockRead moved(std::move(*src)); src.reset();
              try { bool end = false; for (int i = 0; i < 100000 && !end; i++) { auto g = moved.read_generic_aec(end); if (!end) use(g.string()); } } catch (std::exception&) {}
              try { bool end = false; for (int i = 0; i < 100000 && !end; i++) { auto g = moved.read_generic_qr(end); if (!end) use(g.string()); } } catch (std::exception&) {}
              try { bool end = false; for (int i = 0; i < 100000 && !end; i++) { auto g = moved.read_generic_mm(end); if (!end) use(g.string()); } } catch (std::exception&) {} }
        }
    } catch (CdnsDecoderEnd& e) { r += "end"; } catch (std::exception& e) { r += "exc:" + cls(e.what()); }
    return r + ";b=" + std::to_string(std::min<size_t>(nb, 9)) + ";r=" + std::to_string(std::min<size_t>(nrec, 9));
}

// reader-level, ONE CdnsBlockRead object re-used for every block (as an application that avoids re-allocating would): only some records of each
// block are consumed before the next read; after a read that fails part-way the object is queried until it reports the end
inline std::string reader_reused_block(const std::string& in, size_t max_blocks = 64) {
    std::istringstream is(in); std::string r = "ru:"; size_t nb = 0;
    try {
        std::unique_ptr<CdnsReader> rdp(new CdnsReader(is)); CdnsReader& rd = *rdp; CdnsBlockRead b;
        auto drain = [&](int limit) { try { bool end = false; for (int i = 0; i < limit && !end; i++) { auto g = b.read_generic_qr(end); if (!end) use(g.string()); } } catch (std::exception&) { r += "q"; }
                                      try { bool end = false; for (int i = 0; i < limit && !end; i++) { auto g = b.read_generic_mm(end); if (!end) use(g.string()); } } catch (std::exception&) { r += "m"; }
                                      try { bool end = false; for (int i = 0; i < limit && !end; i++) { auto g = b.read_generic_aec(end); if (!end) use(g.string()); } } catch (std::exception&) { r += "a"; } };
        while (nb < max_blocks) {
            if (rd.m_indef_blocks && rd.m_decoder.peek_type() == CborType::BREAK) break;
            if (!rd.m_indef_blocks && rd.m_blocks_read == rd.m_blocks_count) break;
            try { b.read(rd.m_decoder, rd.m_file_preamble.m_block_parameters); rd.m_blocks_read++; nb++; }
            catch (std::exception&) { r += "X"; drain(100000); break; }   // the failed read left the object in some state: it must still answer safely
            drain(nb % 2 ? 3 : 1);
        }
    } catch (CdnsDecoderEnd&) { r += "end"; } catch (std::exception&) { r += "exc"; }
    return r + std::to_string(std::min<size_t>(nb, 9));
}

inline std::string all(const std::string& in, bool reuse = false) { return decoder_ops(in) + "|" + reader_all(in) + (reuse ? "|" + reader_reused_block(in) : std::string()); }

} // namespace consume
