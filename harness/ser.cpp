// E-SER: every serialisation call returns the number of bytes it appended (C10, first clause), call by call.
// For each serialisable structure of the public API, every subset of its optional members (structures with up to 10 optional
// members; singles, pairs, complements, empty and full above that) x value widths x fill level of the encoder's staging buffer:
// the value returned by X::write(enc) is compared with the growth of the output, measured as the difference between the output
// of (filler, X) and the output of (filler) alone - no returned value is trusted on the measuring side. The appended bytes must
// also be exactly one well-formed CBOR item (strict independent parser).
#include "util.hpp"
#include "libdump.hpp"
using namespace vh;
using namespace CDNS;

static bool g_wellformed_only = false;   // --mode wellformed (C02): only "the appended bytes are exactly one CBOR item" is judged
static const size_t FILLS_Q[] = {0, 1, 2040, 2046, 2047};
static std::map<size_t, size_t> g_base;   // filler -> output size of the filler alone

static void put_filler(CdnsEncoder& e, size_t pad) { if (pad) { for (size_t i = 0; i < pad; i++) e.write((uint8_t)0); } }
static size_t base_size(size_t pad) {
    auto it = g_base.find(pad); if (it != g_base.end()) return it->second;
    std::vector<std::string> outs; { CdnsEncoder e(MemSink{&outs}, CborOutputCompression::NO_COMPRESSION); put_filler(e, pad); }
    return g_base[pad] = outs.at(0).size();
}

struct SV { std::string key, what; };
template<class F> static void probe(const std::string& sname, const std::string& rep, size_t pad, F wr, Result& R, std::vector<SV>& out) {
    std::vector<std::string> outs; size_t ret;
    { CdnsEncoder e(MemSink{&outs}, CborOutputCompression::NO_COMPRESSION); put_filler(e, pad); ret = wr(e); }
    size_t base = base_size(pad), grown = outs.at(0).size() - base;
    R.count("traces"); R.count("transitions"); if (grown > 1) R.count("nontrivial");
    if (!g_wellformed_only && ret != grown) out.push_back({"ser|" + sname + "|return-value", sname + "::write returned " + std::to_string(ret) + " but appended " + std::to_string(grown) + " bytes [" + rep + "]"});
    try { ref::parse_exact(outs[0].substr(base)); } catch (std::exception& ex) { out.push_back({"ser|" + sname + "|not-one-item", sname + "::write appended bytes that are not one CBOR item: " + ex.what() + " [" + rep + "]"}); }
    R.outcome(sname + (grown <= 1 ? ":1" : grown < 24 ? ":small" : ":large") + (base % 2048 + grown > 2048 ? ":crosses" : ""));
}

// value selector: 0 = small values, 1 = widest values
template<class T> static T VAL(int w, T small) { return w ? std::numeric_limits<T>::max() : small; }

struct Case { int st; uint32_t mask; int w; size_t pad; std::string str() const { return "st=" + std::to_string(st) + ";mask=" + std::to_string(mask) + ";w=" + std::to_string(w) + ";pad=" + std::to_string(pad); } };

enum { ST_TS, ST_CT, ST_SIG, ST_Q, ST_RR, ST_MMD, ST_RPD, ST_QRE, ST_BP, ST_BS, ST_QR, ST_AEC, ST_MM, ST_STR, ST_IDX, ST_SH, ST_SP, ST_CP, ST_BPAR, ST_FP, ST_BLOCK, NST };
static const char* SN[] = {"Timestamp", "ClassType", "QueryResponseSignature", "Question", "RR", "MalformedMessageData", "ResponseProcessingData", "QueryResponseExtended", "BlockPreamble",
                           "BlockStatistics", "QueryResponse", "AddressEventCount", "MalformedMessage", "StringItem", "IndexListItem", "StorageHints", "StorageParameters", "CollectionParameters", "BlockParameters", "FilePreamble", "CdnsBlock"};
static const int NBITS[] = {2, 2, 17, 1, 2, 4, 2, 4, 1, 6, 16, 2, 4, 3, 3, 2, 9, 10, 12, 4, 6};

static StorageParameters mk_sp(uint32_t m, int w) {
    StorageParameters sp; if (w) { sp.ticks_per_second = UINT64_MAX; sp.max_block_items = UINT64_MAX; sp.storage_hints.query_response_hints = 0xffffffffu; sp.storage_hints.query_response_signature_hints = 0xffffffffu; sp.storage_hints.rr_hints = 255; sp.storage_hints.other_data_hints = 255; }
    std::string txt = w ? std::string(300, 't') : std::string("t");
    if (m & 1) sp.storage_flags = (StorageFlagsMask)(w ? 255 : 1); if (m & 2) sp.client_address_prefix_ipv4 = VAL<uint8_t>(w, 24); if (m & 4) sp.client_address_prefix_ipv6 = VAL<uint8_t>(w, 0);
    if (m & 8) sp.server_address_prefix_ipv4 = VAL<uint8_t>(w, 1); if (m & 16) sp.server_address_prefix_ipv6 = VAL<uint8_t>(w, 23); if (m & 32) sp.sampling_method = txt; if (m & 64) sp.anonymization_method = txt;
    if (m & 128) { sp.opcodes.clear(); sp.rr_types.clear(); }
    if (m & 256) { sp.opcodes.assign(300, (OpCodes)255); sp.rr_types.assign(300, (RrTypes)65535); }
    return sp;
}
static CollectionParameters mk_cp(uint32_t m, int w) {
    CollectionParameters c; std::string txt = w ? std::string(300, 'c') : std::string("");
    if (m & 1) c.query_timeout = VAL<uint64_t>(w, 5); if (m & 2) c.skew_timeout = VAL<uint64_t>(w, 0); if (m & 4) c.snaplen = VAL<uint64_t>(w, 24); if (m & 8) c.promisc = (bool)w;
    if (m & 16) c.interfaces = w ? std::vector<std::string>(30, txt) : std::vector<std::string>{}; if (m & 32) c.server_address = w ? std::vector<std::string>{std::string(16, '\xfe'), std::string()} : std::vector<std::string>{};
    if (m & 64) c.vlan_ids = w ? std::vector<uint16_t>(25, 65535) : std::vector<uint16_t>{}; if (m & 128) c.filter = txt; if (m & 256) c.generator_id = txt; if (m & 512) c.host_id = txt;
    return c;
}

// builds the object of case c and hands it to the visitor together with its writer (and the writer to use on an object that was read back)
template<class Vis> static void visit(const Case& c, Vis&& V) {
    const uint32_t m = c.mask; const int w = c.w;
    index_t ix = w ? std::numeric_limits<index_t>::max() : 0;
    auto W = [](auto& x, CdnsEncoder& e) { return x.write(e); };
    switch (c.st) {
    case ST_TS: { Timestamp t((m & 1) ? (w ? (uint64_t)INT64_MAX : 1600000000ULL) : 0, (m & 2) ? (w ? 999999999u : 24u) : 0); V(t, W, W); break; }
    case ST_CT: { ClassType t; if (m & 1) t.type = VAL<uint16_t>(w, 24); if (m & 2) t.class_ = VAL<uint16_t>(w, 255); V(t, W, W); break; }
    case ST_SIG: { QueryResponseSignature s;
        if (m & 1) s.server_address_index = ix; if (m & 2) s.server_port = VAL<uint16_t>(w, 53); if (m & 4) s.qr_transport_flags = (QueryResponseTransportFlagsMask)(w ? 255 : 0);
        if (m & 8) s.qr_type = (QueryResponseTypeValues)(w ? 5 : 0); if (m & 16) s.qr_sig_flags = (QueryResponseFlagsMask)(w ? 255 : 1); if (m & 32) s.query_opcode = VAL<uint8_t>(w, 0);
        if (m & 64) s.qr_dns_flags = (DNSFlagsMask)(w ? 65535 : 256); if (m & 128) s.query_rcode = VAL<uint16_t>(w, 0); if (m & 256) s.query_classtype_index = ix; if (m & 512) s.query_qdcount = VAL<uint16_t>(w, 1);
        if (m & 1024) s.query_ancount = VAL<uint32_t>(w, 0); if (m & 2048) s.query_nscount = VAL<uint16_t>(w, 23); if (m & 4096) s.query_arcount = VAL<uint16_t>(w, 24); if (m & 8192) s.query_edns_version = VAL<uint8_t>(w, 0);
        if (m & 16384) s.query_udp_size = VAL<uint16_t>(w, 1232); if (m & 32768) s.query_opt_rdata_index = ix; if (m & 65536) s.response_rcode = VAL<uint16_t>(w, 3);
        V(s, W, W); break; }
    case ST_Q: { Question q; q.name_index = (m & 1) ? ix : 0; q.classtype_index = ix; V(q, W, W); break; }
    case ST_RR: { RR r; r.name_index = ix; r.classtype_index = 0; if (m & 1) r.ttl = VAL<uint32_t>(w, 0); if (m & 2) r.rdata_index = ix; V(r, W, W); break; }
    case ST_MMD: { MalformedMessageData d; if (m & 1) d.server_address_index = ix; if (m & 2) d.server_port = VAL<uint16_t>(w, 0); if (m & 4) d.mm_transport_flags = (QueryResponseTransportFlagsMask)(w ? 255 : 2);
        if (m & 8) d.mm_payload = w ? std::string(3000, 'm') : std::string(); V(d, W, W); break; }
    case ST_RPD: { ResponseProcessingData d; if (m & 1) d.bailiwick_index = ix; if (m & 2) d.processing_flags = (ResponseProcessingFlagsMask)(w ? 255 : 1); V(d, W, W); break; }
    case ST_QRE: { QueryResponseExtended d; if (m & 1) d.question_index = ix; if (m & 2) d.answer_index = ix; if (m & 4) d.authority_index = ix; if (m & 8) d.additional_index = ix; V(d, W, W); break; }
    case ST_BP: { BlockPreamble b; b.earliest_time = Timestamp(w ? 4294967296ULL : 0, w ? 999999 : 0); if (m & 1) b.block_parameters_index = ix; V(b, W, W); break; }
    case ST_BS: { BlockStatistics s; unsigned v = w ? UINT_MAX : 0; if (m & 1) s.processed_messages = v; if (m & 2) s.qr_data_items = v; if (m & 4) s.unmatched_queries = v; if (m & 8) s.unmatched_responses = v; if (m & 16) s.discarded_opcode = v; if (m & 32) s.malformed_items = v;
        V(s, W, W); break; }
    case ST_QR: { QueryResponse q; Timestamp early(1000, 0); uint64_t tps = w ? 1000000000ULL : 1000000ULL;
        if (m & 1) q.time_offset = w ? Timestamp(1000 + 4000000, 999999) : Timestamp(1000, 1); if (m & 2) q.client_address_index = ix; if (m & 4) q.client_port = VAL<uint16_t>(w, 0); if (m & 8) q.transaction_id = VAL<uint16_t>(w, 255);
        if (m & 16) q.qr_signature_index = ix; if (m & 32) q.client_hoplimit = VAL<uint8_t>(w, 64); if (m & 64) q.response_delay = w ? INT64_MIN : -1; if (m & 128) q.query_name_index = ix;
        if (m & 256) q.query_size = w ? (std::size_t)UINT64_MAX : 0; if (m & 512) q.response_size = w ? (std::size_t)1 << 32 : 23;
        if (m & 1024) { ResponseProcessingData d; if (w) { d.bailiwick_index = ix; d.processing_flags = (ResponseProcessingFlagsMask)1; } q.response_processing_data = d; }   // w=0: present but empty
        if (m & 2048) { QueryResponseExtended d; if (w) { d.question_index = ix; d.additional_index = 0; } q.query_extended = d; }
        if (m & 4096) { QueryResponseExtended d; if (w) { d.answer_index = ix; d.authority_index = ix; } q.response_extended = d; }
        if (m & 8192) q.asn = w ? std::string(300, '6') : std::string(); if (m & 16384) q.country_code = w ? std::string("CZE") : std::string("CZ"); if (m & 32768) q.round_trip_time = w ? INT64_MAX : 0;
        V(q, [&](auto& x, CdnsEncoder& e) { return x.write(e, early, tps); }, [](auto& x, CdnsEncoder& e) { return x.write(e, Timestamp(0, 0), 1); }); break; }
    case ST_AEC: { AddressEventCount x; x.ae_type = (AddressEventTypeValues)(w ? 5 : 0); x.ae_address_index = ix; x.ae_count = w ? UINT64_MAX : 1; if (m & 1) x.ae_code = VAL<uint8_t>(w, 3); if (m & 2) x.ae_transport_flags = (QueryResponseTransportFlagsMask)(w ? 255 : 0);
        V(x, W, W); break; }
    case ST_MM: { MalformedMessage x; Timestamp early(w ? 5000 : 1000, 0); uint64_t tps = w ? 1 : 1000000ULL;
        if (m & 1) x.time_offset = w ? Timestamp(1000, 0) : Timestamp(1000, 999999); if (m & 2) x.client_address_index = ix; if (m & 4) x.client_port = VAL<uint16_t>(w, 24); if (m & 8) x.message_data_index = ix;
        V(x, [&](auto& y, CdnsEncoder& e) { return y.write(e, early, tps); }, [](auto& y, CdnsEncoder& e) { return y.write(e, Timestamp(0, 0), 1); }); break; }
    case ST_STR: { StringItem s; static const size_t L[] = {0, 1, 23, 24, 255, 256, 2047, 5000}; s.data = std::string(L[m % 8], w ? '\xff' : 'a'); V(s, W, W); break; }
    case ST_IDX: { IndexListItem s; static const size_t L[] = {0, 1, 23, 24, 255, 256, 700, 3000}; s.list.assign(L[m % 8], ix); V(s, W, W); break; }
    case ST_SH: { StorageHints h; if (m & 1) { h.query_response_hints = 0; h.query_response_signature_hints = 0; } if (m & 2) { h.rr_hints = 0; h.other_data_hints = 0; } if (w) { h.query_response_hints |= 0x80000000u; h.rr_hints |= 0x80; }
        V(h, W, W); break; }
    case ST_SP: { StorageParameters sp = mk_sp(m, w); V(sp, W, W); break; }
    case ST_CP: { CollectionParameters cp = mk_cp(m, w); V(cp, W, W); break; }
    case ST_BPAR: { // bits 0..1: collection parameters absent / present-empty / one member / all; bits 2..11: ten storage-parameter selections
        BlockParameters bp; static const uint32_t SPM[] = {0, 1, 32, 64, 127, 128, 256, 2, 4, 8 | 16}; uint32_t spm = 0; for (int i = 0; i < 10; i++) if (m & (4u << i)) spm |= SPM[i]; bp.storage_parameters = mk_sp(spm, w);
        switch (m & 3) { case 0: break; case 1: bp.collection_parameters = CollectionParameters(); break; case 2: bp.collection_parameters = mk_cp(4, w); break; default: bp.collection_parameters = mk_cp(1023, w); }
        V(bp, W, W); break; }
    case ST_FP: { // bits 0..1: 1, 2, 3, 8 parameter sets; bit 2: private version absent; bit 3: sets alternate between "empty collection parameters" and "none"
        static const int NS[] = {1, 2, 3, 8}; std::vector<BlockParameters> bps;
        for (int i = 0; i < NS[m & 3]; i++) { BlockParameters bp; bp.storage_parameters = mk_sp(i % 2 ? 127 : 0, w); if (m & 8) { if (i % 2 == 0) bp.collection_parameters = CollectionParameters(); } else if (i % 3 == 1) bp.collection_parameters = mk_cp(1023, w); bps.push_back(bp); }
        FilePreamble fp(bps); if (m & 4) fp.m_private_version = boost::none; else fp.m_private_version = (uint8_t)(w ? 255 : 0); if (w) { fp.m_major_format_version = 255; fp.m_minor_format_version = 24; }
        V(fp, W, W); break; }
    case ST_BLOCK: { // the block's own map and its nine tables: table (mask / 4; 9 = all of them) holds 0 / 1 / 24 / 256 entries, the others one each (array heads of 1, 2 and 3 bytes)
        static const size_t SZ[] = {0, 1, 24, 256}; size_t which = (m / 4) % 10, n = SZ[m % 4]; CdnsBlock b;
        auto cnt = [&](size_t t) { return (which == 9 || which == t) ? n : (size_t)1; };
        for (size_t i = 0; i < cnt(0); i++) b.add_ip_address("ip" + std::to_string(i)); for (size_t i = 0; i < cnt(1); i++) { ClassType c; c.type = (uint16_t)i; c.class_ = 1; b.add_classtype(c); }
        for (size_t i = 0; i < cnt(2); i++) b.add_name_rdata("n" + std::to_string(i)); for (size_t i = 0; i < cnt(3); i++) { QueryResponseSignature sg; sg.query_ancount = (uint32_t)i; if (w) sg.server_port = 65535; b.add_qr_signature(sg); }
        for (size_t i = 0; i < cnt(4); i++) b.add_question_list({(index_t)i}); for (size_t i = 0; i < cnt(5); i++) { Question q; q.name_index = (index_t)i; q.classtype_index = 0; b.add_question(q); }
        for (size_t i = 0; i < cnt(6); i++) b.add_rr_list({(index_t)i, 0}); for (size_t i = 0; i < cnt(7); i++) { RR r; r.name_index = (index_t)i; r.classtype_index = 0; if (w) r.ttl = 0xffffffffu; b.add_rr(r); }
        for (size_t i = 0; i < cnt(8); i++) { MalformedMessageData md; md.server_port = (uint16_t)i; if (w) md.mm_payload = std::string(30, 'p'); b.add_malformed_message_data(md); }
        if (w) { BlockStatistics st; st.processed_messages = 5; b.m_block_statistics = st; }
        V(b, W, W); break; }
    }
}

static void run_case(const Case& c, Result& R, std::vector<SV>& out) {
    const std::string rep = c.str(), sn = SN[c.st];
    visit(c, [&](auto& x, auto wr, auto) { probe(sn, rep, c.pad, [&](CdnsEncoder& e) { return wr(x, e); }, R, out); });
}

// Round trip of one structure: write(x) = B; a fresh object that reads B, and an object that first read the fully populated variant and then
// reads B (the readers re-use objects), must both serialise to B again. No hand-written expectation is involved.
template<class X, class Wr> static std::string ser_of(X& x, Wr wr) { std::vector<std::string> outs; { CdnsEncoder e(MemSink{&outs}, CborOutputCompression::NO_COMPRESSION); wr(x, e); } return outs.at(0); }
static void run_roundtrip(const Case& c, Result& R, std::vector<SV>& out) {
    const std::string rep = c.str(), sn = SN[c.st]; std::string full_bytes;
    Case fc = c; fc.mask = (1u << NBITS[c.st]) - 1; fc.w = 1; if (c.st == ST_STR || c.st == ST_IDX) fc.mask = 6;
    visit(fc, [&](auto& x, auto wr, auto) { full_bytes = ser_of(x, wr); });
    visit(c, [&](auto& x, auto wr, auto wr2) {
        using X = typename std::decay<decltype(x)>::type;
        if constexpr (std::is_same<X, CdnsBlock>::value) { (void)wr2; return; } else {   // a block is read through CdnsBlockRead (covered by the histories), not through X::read
        std::string B = ser_of(x, wr); R.count("traces"); R.count("transitions", 2); if (B.size() > 1) R.count("nontrivial");
        auto rd = [&](X& y, const std::string& bytes, const char* what) { std::istringstream is(bytes); CdnsDecoder d(is); try { y.read(d); return true; } catch (std::exception& ex) { out.push_back({"serrt|" + sn + "|read-rejects", sn + "::read rejects what " + sn + "::write produced (" + what + "): " + ex.what() + " [" + rep + "]"}); return false; } };
        X y{}; if (!rd(y, B, "fresh object")) return;
        std::string B1 = ser_of(y, wr2);
        if (B1 != B) out.push_back({"serrt|" + sn + "|fresh", sn + ": write(read(write(x))) differs from write(x): " + ref::hex(B).substr(0, 80) + " vs " + ref::hex(B1).substr(0, 80) + " [" + rep + "]"});
        X z{}; { std::istringstream is(full_bytes); CdnsDecoder d(is); try { z.read(d); } catch (std::exception&) { R.outcome(sn + ":full-unreadable"); return; } }
        if (!rd(z, B, "object used before")) return;
        std::string B2 = ser_of(z, wr2);
        if (B2 != B) out.push_back({"serrt|" + sn + "|reused-object", sn + ": an object that held other members before reads this item differently: " + ref::hex(B).substr(0, 80) + " vs " + ref::hex(B2).substr(0, 80) + " [" + rep + "]"});
        R.outcome(sn + (B.size() <= 1 ? ":1" : B.size() < 24 ? ":small" : ":large"));
        }
    });
}

int main(int argc, char** argv) {
    Args a = Args::parse(argc, argv); Result total; bool T = a.thorough();
    auto done = [&](int rc) { a.finish(total); return rc; };
    const bool RT = a.mode == "roundtrip"; g_wellformed_only = a.mode == "wellformed"; const std::string which = a.kv.count("structs") ? a.kv["structs"] : std::string("all");
    if (!a.replay.empty()) { std::string s = slurp(a.replay); Case c; unsigned long pd; if (sscanf(s.c_str(), "st=%d;mask=%u;w=%d;pad=%lu", &c.st, &c.mask, &c.w, &pd) != 4 || c.st < 0 || c.st >= NST) return done(2); c.pad = pd;
        Pool rp(1, 60); rp.run(1, [&](uint64_t, Result& R) { std::vector<SV> out; if (RT) run_roundtrip(c, R, out); else run_case(c, R, out); for (auto& v : out) R.violation(v.key, v.what, s); }, [&](uint64_t, const std::string& d, Result& R) { R.violation("ser|" + crash_key(d), d.substr(0, 1500), s); }, total);
        return done(total.viol.empty() ? 0 : 1); }
    std::vector<size_t> fills(std::begin(FILLS_Q), std::end(FILLS_Q));
    if (T) for (size_t f : std::vector<size_t>{2, 23, 24, 1000, 2000, 2030, 2035, 2042, 2044, 2045, 2048, 2049, 4095}) fills.push_back(f);
    for (size_t f : fills) base_size(f);
    std::vector<std::pair<int, uint32_t>> sm;   // (structure, member mask)
    if (RT) fills = {0};
    for (int st = 0; st < NST; st++) {
        if (which == "block" && st >= ST_SH && st != ST_BLOCK) continue; if (which == "preamble" && ((st < ST_SH && st != ST_TS) || st == ST_BLOCK)) continue;
        int nb = NBITS[st]; uint32_t full = (1u << nb) - 1; std::set<uint32_t> masks;
        if (nb <= 12) for (uint32_t m = 0; m <= full; m++) masks.insert(m);
        else { masks.insert(0); masks.insert(full); for (int i = 0; i < nb; i++) { masks.insert(1u << i); masks.insert(full & ~(1u << i)); for (int j = i + 1; j < nb; j++) { masks.insert((1u << i) | (1u << j)); if (T) masks.insert(full & ~((1u << i) | (1u << j))); } }
               if (T && nb <= 17) for (uint32_t m = 0; m <= full; m++) masks.insert(m); }
        for (uint32_t m : masks) sm.push_back({st, m});
    }
    uint64_t chunk = 64, ntasks = (sm.size() + chunk - 1) / chunk; Pool pool(a.jobs, 120);
    pool.run(ntasks, [&](uint64_t ti, Result& R) {
        if (a.expired()) { R.deadline_hit = true; return; }
        for (uint64_t i = ti * chunk; i < std::min<uint64_t>(sm.size(), (ti + 1) * chunk); i++) for (int w = 0; w < 2; w++) for (size_t f : fills) {
            Case c{sm[i].first, sm[i].second, w, f}; set_note(c.str()); std::vector<SV> out; if (RT) run_roundtrip(c, R, out); else run_case(c, R, out);
            for (auto& v : out) R.violation(v.key, v.what, c.str()); }
        if (ti % 97 == 0) R.sample(Case{sm[ti * chunk].first, sm[ti * chunk].second, 0, 0}.str());
    }, [&](uint64_t, const std::string& d, Result& R) { R.violation("ser|" + crash_key(d), d.substr(0, 1500), pool.last_note); }, total);
    total.n["evaluations"] = total.n["traces"]; total.n["states"] = sm.size() * 2;
    total.notes.push_back("structures: " + std::to_string((int)NST) + "; (structure, member subset) pairs: " + std::to_string(sm.size()) + "; value widths 2; fill levels " + std::to_string(fills.size()));
    return done(0);
}
