// Record pools and block-parameter specifications shared by the harnesses.
#pragma once
#include "model.hpp"
using namespace CDNS;

// ------------------------------------------------------------------ configuration
struct ParamSpec { uint64_t max_items; uint64_t tps; int hints; int coll; };   // coll: 0 no collection parameters, 1 several members, 2 present but empty, 3 one member
struct Cfg { std::string name; std::vector<ParamSpec> sets; ParamSpec extra; };

static BlockParameters build_bp(const ParamSpec& s) {
    BlockParameters bp; auto& sp = bp.storage_parameters;
    sp.max_block_items = s.max_items; sp.ticks_per_second = s.tps;
    auto& h = sp.storage_hints;
    switch (s.hints) {
    case 0: break;
    case 1: h.other_data_hints = 0; break;
    case 2: h.query_response_hints = 0x5; h.query_response_signature_hints = 0; h.rr_hints = 0; break;
    case 3: h.query_response_hints = 0x3ffff & ~(1u << 1) & ~(1u << 7) & ~(7u << 12); h.query_response_signature_hints = 0x1ffff & ~1u & ~(1u << 8); h.rr_hints = 1; h.other_data_hints = 2; break;
    case 4: h.query_response_hints = 0; break;
    case 5: h.query_response_hints = 0x3ffff & ~1u; break; // no time offsets
    case 6: h.query_response_hints = 0x15555 | 0x10; h.query_response_signature_hints = 0x0aaaa; h.rr_hints = 1; break;              // alternating members: neighbours in every map are split
    case 8: h.other_data_hints = 1; break;   // malformed messages but no address events (kind 3 has the opposite: 2)
    case 7: h.query_response_hints = 0x2aaaa | 0x10; h.query_response_signature_hints = 0x15555; h.rr_hints = 2; break;
    }
    if (s.coll == 4) { sp.opcodes.clear(); sp.rr_types.clear(); }   // mandatory list members, present but empty
    if (s.coll == 2) bp.collection_parameters = CollectionParameters();
    if (s.coll == 3) { CollectionParameters c; c.snaplen = 65535; bp.collection_parameters = c; }
    if (s.coll == 1) { CollectionParameters c; c.query_timeout = 5; c.promisc = true; c.interfaces = {"eth0", "lo"}; c.vlan_ids = {1, 4094}; c.host_id = std::string("h\xc3\xa9"); bp.collection_parameters = c;
        sp.storage_flags = (StorageFlagsMask)3; sp.sampling_method = std::string("none"); sp.client_address_prefix_ipv6 = 64; }
    return bp;
}

// ------------------------------------------------------------------ record pools
struct Pools {
    std::vector<GenericQueryResponse> qr; std::vector<GenericAddressEventCount> aec; std::vector<GenericMalformedMessage> mm;
    std::vector<boost::optional<BlockStatistics>> stats; std::vector<std::string> stats_dump;
};
static GenericResourceRecord rr(const std::string& n, uint16_t t, uint16_t c, boost::optional<uint32_t> ttl = boost::none, boost::optional<std::string> rd = boost::none) {
    GenericResourceRecord r; r.name = n; r.classtype.type = t; r.classtype.class_ = c; r.ttl = ttl; r.rdata = rd; return r; }

static Pools make_pools(uint64_t tps) {
    Pools p; auto T = [&](uint64_t s, uint64_t frac) { return Timestamp(s, frac % tps); };
    std::string ip4a("\xc0\x00\x02\x01", 4), ip4b("\xc0\x00\x02\x63", 4), ip6(16, '\x20'), nameA("\x03www\x07""example\x03""com\x00", 17), nameB("\x02ns\x00", 4);
    GenericQueryResponse f;  // R0: everything set
    f.ts = T(1600000000, 123456); f.client_ip = ip4a; f.client_port = 53124; f.transaction_id = 0xbeef; f.server_ip = ip6; f.server_port = 53;
    f.qr_transport_flags = (QueryResponseTransportFlagsMask)3; f.qr_type = QueryResponseTypeValues::resolver; f.qr_sig_flags = (QueryResponseFlagsMask)0x1f;
    f.query_opcode = 0; f.qr_dns_flags = (DNSFlagsMask)0x8110; f.query_rcode = 0; ClassType ct; ct.type = 28; ct.class_ = 1; f.query_classtype = ct;
    f.query_qdcount = 1; f.query_ancount = 0; f.query_nscount = 65535; f.query_arcount = 1; f.query_edns_version = 0; f.query_udp_size = 1232;
    f.query_opt_rdata = std::string("\x00\x0a\x00\x08opt", 7); f.response_rcode = 3; f.client_hoplimit = 64; f.response_delay = -1500; f.query_name = nameA;
    f.query_size = 45; f.response_size = 70000; f.bailiwick = nameB; f.processing_flags = ResponseProcessingFlagsMask::from_cache;
    f.query_questions = std::vector<GenericResourceRecord>{rr(nameA, 28, 1)};
    f.query_answers = std::vector<GenericResourceRecord>{rr(nameA, 1, 1, 300u, std::string("\x01\x02\x03\x04", 4))};
    f.query_authority = std::vector<GenericResourceRecord>{rr(nameB, 2, 1, 0u), rr(nameB, 2, 1, boost::none, std::string("rd"))};
    // lists that mix records with and without the optional members, in both orders (a member set on one record must not leak into the next)
    f.query_additional = std::vector<GenericResourceRecord>{rr(nameB, 41, 4096, 5u, std::string("rdX")), rr(nameA, 1, 1)};
    f.response_questions = std::vector<GenericResourceRecord>{rr(nameA, 28, 1), rr(nameB, 255, 255)};
    f.response_answers = std::vector<GenericResourceRecord>{rr(nameA, 28, 1, 0xffffffffu, ip6), rr(nameA, 28, 1, 0xffffffffu, ip6)};
    f.response_authority = std::vector<GenericResourceRecord>{rr(nameB, 6, 1, 3600u, std::string(300, 'x'))};
    f.response_additional = std::vector<GenericResourceRecord>{rr(nameA, 1, 1, 7u, std::string("r1")), rr(nameB, 2, 2), rr(nameA, 3, 3, 9u), rr(nameB, 4, 4, boost::none, std::string("r4")), rr(nameB, 5, 5)};
    f.asn = std::string("64512"); f.country_code = std::string("CZ"); f.round_trip_time = 12345;
    p.qr.push_back(f);
    GenericQueryResponse r1; r1.client_port = 1; p.qr.push_back(r1);                              // R1 minimal
    GenericQueryResponse r2; r2.ts = T(1600000005, 999999999); p.qr.push_back(r2);                // R2 ts only, later
    GenericQueryResponse r3; r3.ts = T(1600000001, 0); r3.client_ip = ip4a; r3.server_ip = ip6; r3.query_name = nameA; r3.client_port = 2; r3.query_classtype = ct;
    r3.response_answers = std::vector<GenericResourceRecord>{rr(nameA, 28, 1, 0xffffffffu, ip6)}; p.qr.push_back(r3);  // R3 shares table values
    GenericQueryResponse r4; r4.ts = T(1500000000, 1); r4.client_ip = ip4b; r4.response_delay = INT64_MIN; r4.query_size = (std::size_t)UINT64_MAX; p.qr.push_back(r4); // R4 earlier
    GenericQueryResponse r5; p.qr.push_back(r5);                                                  // R5 no field at all: never storable
    GenericQueryResponse r6; r6.client_ip = ip4b; r6.query_name = nameB; r6.server_ip = ip4a; p.qr.push_back(r6);      // R6 only fields that hint sets 2/3 drop
    GenericQueryResponse r7; r7.server_port = 5353; p.qr.push_back(r7);                           // R7 only a signature member: storable only through the signature table
    GenericAddressEventCount a0; a0.ae_type = AddressEventTypeValues::tcp_reset; a0.ip_address = ip4a; p.aec.push_back(a0);
    GenericAddressEventCount a1; a1.ae_type = AddressEventTypeValues::icmp_dest_unreachable; a1.ae_code = 3; a1.ae_transport_flags = (QueryResponseTransportFlagsMask)1; a1.ip_address = ip6; p.aec.push_back(a1);
    GenericAddressEventCount a2 = a0; a2.ae_code = 0; p.aec.push_back(a2);
    GenericAddressEventCount a3 = a1; a3.ae_transport_flags = (QueryResponseTransportFlagsMask)2; p.aec.push_back(a3);   // differs from a1 in the transport flags only
    GenericAddressEventCount a4 = a0; a4.ip_address = std::string(); p.aec.push_back(a4);   // a0 with an EMPTY address (a legal byte string): a key of its own, whatever sits at index 0 of the address table
    GenericAddressEventCount a5 = a1; a5.ae_transport_flags = (QueryResponseTransportFlagsMask)0x21; p.aec.push_back(a5);   // a1 plus the trailing-data bit (1 << 5): differs from a1 in an upper flag bit only
    GenericMalformedMessage m0; m0.ts = T(1600000002, 5); m0.client_ip = ip4a; m0.client_port = 9; m0.server_ip = ip6; m0.server_port = 853; m0.mm_transport_flags = (QueryResponseTransportFlagsMask)5; m0.mm_payload = std::string("\xff\x00junk", 6); p.mm.push_back(m0);
    GenericMalformedMessage m1; m1.client_port = 7; p.mm.push_back(m1);
    GenericMalformedMessage m2; p.mm.push_back(m2);                                               // no field: not storable
    GenericMalformedMessage m3; m3.ts = T(1400000000, 0); m3.mm_payload = std::string(""); p.mm.push_back(m3);       // earliest of all, empty payload
    GenericMalformedMessage m4; m4.mm_payload = std::string("only-the-payload"); p.mm.push_back(m4);                    // nothing but message data: payload
    GenericMalformedMessage m5; m5.server_ip = ip4b; m5.server_port = 5353; m5.mm_transport_flags = (QueryResponseTransportFlagsMask)2; p.mm.push_back(m5);   // nothing but message data: server side
    p.stats.push_back(boost::none);
    BlockStatistics s1; s1.processed_messages = 10; s1.qr_data_items = 5; s1.unmatched_queries = 1; s1.unmatched_responses = 2; s1.discarded_opcode = 0; s1.malformed_items = 4294967295u; p.stats.push_back(s1);
    BlockStatistics s2; s2.processed_messages = 77; p.stats.push_back(s2);
    p.stats.push_back(BlockStatistics());                                                         // present but empty
    for (auto& s : p.stats) p.stats_dump.push_back(lib::dump(s));
    return p;
}

