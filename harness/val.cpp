// E-VAL: exhaustive grids / boundary products of values.
//   --mode hints     (C04) all 2^18 QR masks, all 2^17 signature masks, rr x other, cross terms
//   --mode preamble  (C09) versions 256x256x3, member subsets, boundary integers, lists, texts, 1..8 sets
//   --mode time      (C17) offset / add-back / comparison / refusal grids against 128-bit arithmetic
#include "util.hpp"
#include "pools.hpp"
using namespace vh;
using namespace CDNS;
typedef unsigned __int128 u128; typedef __int128 i128;

// ======================================================================== hints (C04)
struct HV { std::string key, what; };

static std::string export_one_block(FilePreamble& fp, const std::vector<GenericQueryResponse>& qrs, const Pools& P, bool with_other) {
    std::vector<std::string> outs;
    { CdnsExporter e(fp, MemSink{&outs}, CborOutputCompression::NO_COMPRESSION);
      for (auto& q : qrs) e.buffer_qr(q);
      if (with_other) { e.buffer_aec(P.aec[1]); e.buffer_aec(P.aec[1]); e.buffer_mm(P.mm[0]); e.buffer_mm(P.mm[1]); }
      e.write_block(); }
    return outs.at(0);
}

static void check_hints(uint32_t qr, uint32_t sig, uint8_t rrh, uint8_t oth, const Pools& P, std::vector<HV>& out, Result& R) {
    BlockParameters bp; bp.storage_parameters.max_block_items = 100000;
    auto& h = bp.storage_parameters.storage_hints; h.query_response_hints = qr; h.query_response_signature_hints = sig; h.rr_hints = rrh; h.other_data_hints = oth;
    std::vector<BlockParameters> bps = {bp}; FilePreamble fp(bps);
    std::vector<GenericQueryResponse> qrs = {P.qr[0], P.qr[3]};
    std::string bytes = export_one_block(fp, qrs, P, true);
    // model expectation (both directions: nothing excluded is present, everything enabled is present)
    model::Params mp = model::from(bp); model::Exporter M({mp});
    for (auto& q : qrs) M.buffer_qr(q, nullptr); M.buffer_aec(P.aec[1], nullptr); M.buffer_aec(P.aec[1], nullptr); M.buffer_mm(P.mm[0], nullptr); M.buffer_mm(P.mm[1], nullptr);
    bool any = M.cur.items() > 0;
    if (!any) { if (!bytes.empty()) out.push_back({"bytes-without-storable-record", "output not empty although no record is storable"}); R.outcome("nothing-storable"); return; }
    ref::RFile rf;
    try { rf = ref::read_file(bytes); } catch (std::exception& e) { out.push_back({"invalid-output", e.what()}); return; }
    if (rf.blocks.size() != 1) { out.push_back({"block-count", "expected one block"}); return; }
    const ref::RBlock& b = rf.blocks[0]; const ref::RParams& rp = rf.params[0];
    if (rp.qr_hints != qr || rp.sig_hints != sig || rp.rr_hints != rrh || rp.other_hints != oth) out.push_back({"preamble-hints", "preamble states hints " + std::to_string(rp.qr_hints) + "," + std::to_string(rp.sig_hints) + "," + std::to_string(rp.rr_hints) + "," + std::to_string(rp.other_hints)});
    // presence => bit (bit table from RFC 8618 7.3.1.1.1; response question list shares bit 11)
    for (size_t i = 0; i < b.qr_keys.size(); i++) {
        uint32_t k = b.qr_keys[i];
        for (int key = 0; key <= 10; key++) if ((k >> key & 1) && !(qr >> key & 1)) out.push_back({"excluded-member|qr-key" + std::to_string(key), "QR item " + std::to_string(i) + " carries key " + std::to_string(key) + " whose hint bit is cleared"});
        static const int qe_bits[4] = {11, 12, 13, 14}, re_bits[4] = {11, 15, 16, 17};
        for (int m = 0; m < 4; m++) { if ((b.qr_qe[i] >> m & 1) && !(qr >> qe_bits[m] & 1)) out.push_back({"excluded-member|query-extended-" + std::to_string(m), "QR item " + std::to_string(i) + " query-extended member " + std::to_string(m)});
                                      if ((b.qr_re[i] >> m & 1) && !(qr >> re_bits[m] & 1)) out.push_back({"excluded-member|response-extended-" + std::to_string(m), "QR item " + std::to_string(i) + " response-extended member " + std::to_string(m)}); }
        if ((k >> 11 & 1) && b.qr_qe[i] == 0) out.push_back({"empty-extended", "query-extended present without members"});
    }
    for (size_t i = 0; i < b.sig_keys.size(); i++) for (int m = 0; m <= 16; m++) if ((b.sig_keys[i] >> m & 1) && (!(sig >> m & 1) || !(qr >> 4 & 1))) out.push_back({"excluded-member|sig-key" + std::to_string(m), "signature " + std::to_string(i) + " carries key " + std::to_string(m) + " whose hint bit is cleared"});
    for (size_t i = 0; i < b.rr_keys.size(); i++) { if ((b.rr_keys[i] & 4) && !(rrh & 1)) out.push_back({"excluded-member|rr-ttl", "rr " + std::to_string(i) + " carries ttl"}); if ((b.rr_keys[i] & 8) && !(rrh & 2)) out.push_back({"excluded-member|rr-rdata", "rr " + std::to_string(i) + " carries rdata"}); }
    if (b.has_aec_array && !(oth & 2)) out.push_back({"excluded-array|aec", "address events stored although their hint is cleared"});
    if (b.has_mm_array && !(oth & 1)) out.push_back({"excluded-array|mm", "malformed messages stored although their hint is cleared"});
    for (auto& u : b.unreachable) out.push_back({"unreachable-table-entry|" + u.substr(0, u.find('[')), u + " is not referenced by any stored item (value of an excluded field kept in a table)"});
    std::string expect = M.cur.dump(), got = ref::block_dump(b);
    if (expect != got) { size_t p = 0; while (p < expect.size() && p < got.size() && expect[p] == got[p]) p++; size_t eq = expect.rfind('=', p), sc = eq == std::string::npos ? eq : expect.find_last_of(";{[", eq);
        out.push_back({"content-differs|" + (eq != std::string::npos && sc != std::string::npos ? expect.substr(sc + 1, eq - sc - 1) : std::string("?")), "stored block differs from the hint-filtered expectation at " + std::to_string(p) + ": expected ..." + expect.substr(p > 30 ? p - 30 : 0, 90) + " got ..." + got.substr(p > 30 ? p - 30 : 0, 90)}); }
    R.outcome("qr" + std::to_string(b.qrs.size()) + "aec" + std::to_string(b.aecs.size()) + "mm" + std::to_string(b.mms.size()));
}

// ======================================================================== preamble (C09)
struct PreSpec {   // a compact description from which the FilePreamble is built (for replay)
    int maj = 1, min = 0, priv = 1;            // priv -1 absent
    int nsets = 1; uint32_t sp_mask = 0; int cp_mode = 0; uint32_t cp_mask = 0;   // cp_mode 0 absent, 1 present (members by mask)
    int ival = 0;   // integer boundary selector
    int lists = 0;  // list shape selector
    int text = 0;   // text selector
    int ctor = 0;   // construction path
    std::string str() const { char b[200]; snprintf(b, sizeof b, "maj=%d;min=%d;priv=%d;nsets=%d;sp=%u;cpm=%d;cp=%u;ival=%d;lists=%d;text=%d;ctor=%d", maj, min, priv, nsets, sp_mask, cp_mode, cp_mask, ival, lists, text, ctor); return b; }
    static PreSpec parse(const std::string& s) { PreSpec p; sscanf(s.c_str(), "maj=%d;min=%d;priv=%d;nsets=%d;sp=%u;cpm=%d;cp=%u;ival=%d;lists=%d;text=%d;ctor=%d", &p.maj, &p.min, &p.priv, &p.nsets, &p.sp_mask, &p.cp_mode, &p.cp_mask, &p.ival, &p.lists, &p.text, &p.ctor); return p; }
};
static const uint64_t IV[] = {0, 1, 23, 24, 255, 256, 65535, 65536, 0xffffffffULL, 0x100000000ULL, 0x7fffffffffffffffULL, 0xffffffffffffffffULL};
static const char* TX[] = {"", "ascii text", "h\xc3\xa9llo \xe2\x82\xac \xf0\x9f\x98\x80", nullptr};

static BlockParameters spec_bp(const PreSpec& s, int idx) {
    BlockParameters bp; auto& sp = bp.storage_parameters;
    uint64_t iv = IV[s.ival % 12];
    sp.ticks_per_second = s.ival ? iv : 1000000; sp.max_block_items = s.ival ? IV[(s.ival + 5) % 12] : 10000;
    if (s.ival) { sp.storage_hints.query_response_hints = (uint32_t)iv; sp.storage_hints.query_response_signature_hints = (uint32_t)IV[(s.ival + 3) % 12]; sp.storage_hints.rr_hints = (uint8_t)iv; sp.storage_hints.other_data_hints = (uint8_t)IV[(s.ival + 1) % 12]; }
    std::string txt = s.text == 3 ? std::string(300, 't') : std::string(TX[s.text % 3]);
    if (s.sp_mask & 1) sp.storage_flags = (StorageFlagsMask)(s.ival ? (uint8_t)iv : 5);
    if (s.sp_mask & 2) sp.client_address_prefix_ipv4 = s.ival ? (uint8_t)iv : 24;
    if (s.sp_mask & 4) sp.client_address_prefix_ipv6 = s.ival ? (uint8_t)IV[(s.ival + 1) % 12] : 56;
    if (s.sp_mask & 8) sp.server_address_prefix_ipv4 = 0;
    if (s.sp_mask & 16) sp.server_address_prefix_ipv6 = 255;
    if (s.sp_mask & 32) sp.sampling_method = txt;
    if (s.sp_mask & 64) sp.anonymization_method = txt + "x";
    switch (s.lists) {
    case 0: break;
    case 1: sp.opcodes.clear(); sp.rr_types.clear(); break;
    case 2: sp.opcodes = {(OpCodes)255}; sp.rr_types = {(RrTypes)65535}; break;
    case 3: sp.opcodes.clear(); sp.rr_types.clear(); for (int i = 0; i < 300; i++) { sp.opcodes.push_back((OpCodes)((i * 7) & 255)); sp.rr_types.push_back((RrTypes)((i * 331) & 65535)); } break;
    case 4: sp.opcodes = {(OpCodes)5, (OpCodes)0, (OpCodes)5}; sp.rr_types = {(RrTypes)28, (RrTypes)1, (RrTypes)28, (RrTypes)0}; break;
    }
    if (s.cp_mode) {
        CollectionParameters c;
        if (s.cp_mask & 1) c.query_timeout = s.ival ? iv : 5; if (s.cp_mask & 2) c.skew_timeout = s.ival ? IV[(s.ival + 2) % 12] : 10; if (s.cp_mask & 4) c.snaplen = 65535;
        if (s.cp_mask & 8) c.promisc = (bool)(idx & 1);
        if (s.cp_mask & 16) c.interfaces = {"eth0", txt}; if (s.cp_mask & 32) c.server_address = {std::string("\x7f\0\0\1", 4), std::string(16, '\xfe'), std::string()};
        if (s.cp_mask & 64) c.vlan_ids = {0, 1, 4095, 65535}; if (s.cp_mask & 128) c.filter = txt; if (s.cp_mask & 256) c.generator_id = std::string("gen ") + txt; if (s.cp_mask & 512) c.host_id = txt;
        bp.collection_parameters = c;
    }
    // make set idx differ from every other set in exactly one member
    if (idx > 0) sp.max_block_items = 100 + idx;
    return bp;
}

static void check_preamble(const PreSpec& s, std::vector<HV>& out, Result& R) {
    std::vector<BlockParameters> bps; for (int i = 0; i < (s.ctor == 3 ? 1 : s.nsets); i++) bps.push_back(spec_bp(s, i));
    std::unique_ptr<FilePreamble> fp;
    switch (s.ctor) {
    case 0: fp.reset(new FilePreamble(bps)); break;                                  // FilePreamble(bps)
    case 1: fp.reset(new FilePreamble()); fp->m_block_parameters = bps; break;       // default ctor + assignment
    case 2: fp.reset(new FilePreamble(bps, boost::optional<uint8_t>(7))); break;     // two-argument ctor (argument is ignored upstream: compare the object as it stands)
    case 3: fp.reset(new FilePreamble(bps)); for (int i = 1; i < s.nsets; i++) { BlockParameters b = spec_bp(s, i); fp->add_block_parameters(b); } break;
    }
    fp->m_major_format_version = (uint8_t)s.maj; fp->m_minor_format_version = (uint8_t)s.min;
    if (s.priv < 0) fp->m_private_version = boost::none; else fp->m_private_version = (uint8_t)s.priv;
    std::string before = lib::dump(*fp);
    std::vector<std::string> outs;
    { CdnsExporter e(*fp, MemSink{&outs}, CborOutputCompression::NO_COMPRESSION); GenericQueryResponse q; q.client_port = 1; q.asn = std::string("x"); e.buffer_qr(q); e.write_block(); }
    const std::string& bytes = outs.at(0);
    if (bytes.empty()) { R.outcome("no-output"); return; }   // e.g. hints 0 and nothing storable cannot happen: asn has no hint
    std::string rp;
    try { ref::RFile rf = ref::read_file(bytes); rp = rf.preamble; } catch (std::exception& e) { out.push_back({"invalid-output|" + std::string(s.cp_mode && s.cp_mask == 0 ? "empty-collection-parameters" : "other"), std::string("independent reader rejects the file: ") + e.what()}); }
    lib::LibFile lf = lib::read_bytes(bytes);
    if (!lf.header_ok) { out.push_back({"library-reader-rejects|" + std::string(s.cp_mode && s.cp_mask == 0 ? "empty-collection-parameters" : "other"), "CdnsReader fails on the written file: " + lf.end}); return; }
    auto where = [&](const std::string& a, const std::string& b) { size_t p = 0; while (p < a.size() && p < b.size() && a[p] == b[p]) p++; size_t eq = b.rfind('=', p), sc = eq == std::string::npos ? eq : b.find_last_of(";{", eq); return (eq != std::string::npos && sc != std::string::npos) ? b.substr(sc + 1, eq - sc - 1) : std::string("?"); };
    if (lf.preamble != before) out.push_back({"library-reader|" + where(lf.preamble, before), "preamble read back by CdnsReader differs: written " + before.substr(0, 60) + "... read " + lf.preamble.substr(0, 60)});
    if (!rp.empty() && rp != before) out.push_back({"file-bytes|" + where(rp, before), "preamble bytes (independent reader) differ from the object written: " + rp.substr(0, 80)});
    R.outcome(std::string("sets") + std::to_string(s.nsets) + (s.cp_mode ? "cp" : "") + (s.priv < 0 ? "nopriv" : ""));
}

// ======================================================================== time (C17)
static void check_time(uint64_t rate, uint64_t s1, uint64_t t1, uint64_t s2, uint64_t t2, std::vector<HV>& out) {
    Timestamp a(s1, t1), b(s2, t2);
    u128 A = (u128)s1 * rate + t1, B = (u128)s2 * rate + t2;
    bool in_range = A < ((u128)1 << 63) && B < ((u128)1 << 63);
    if (!in_range) return;
    i128 D = (i128)A - (i128)B;
    int64_t d = a.get_time_offset(b, rate);
    if ((i128)d != D) { out.push_back({"offset-wrong", "offset of (" + std::to_string(s1) + "," + std::to_string(t1) + ") from (" + std::to_string(s2) + "," + std::to_string(t2) + ") at rate " + std::to_string(rate) + " is " + std::to_string(d)}); return; }
    Timestamp c = b; c.add_time_offset(d, rate);
    if ((u128)c.m_secs * rate + c.m_ticks != A || c.m_ticks >= rate) out.push_back({"add-back-wrong", "adding the offset back gives (" + std::to_string(c.m_secs) + "," + std::to_string(c.m_ticks) + ")"});
    if (t1 < rate && t2 < rate) {
        if ((a < b) != (A < B)) out.push_back({"operator<", "operator< disagrees with the instants"});
        if ((a <= b) != (A <= B)) out.push_back({"operator<=", "operator<= disagrees with the instants"});
    }
}
static void check_add(uint64_t rate, uint64_t s, uint64_t t, int64_t off, std::vector<HV>& out) {
    Timestamp a(s, t); u128 A = (u128)s * rate + t;
    if (A >= ((u128)1 << 63)) return;
    i128 Rz = (i128)A + (i128)off; bool must_refuse = rate == 0 || Rz < 0;
    bool threw = false;
    try { a.add_time_offset(off, rate); } catch (std::exception&) { threw = true; }
    std::string desc = "(" + std::to_string(s) + "," + std::to_string(t) + ") + " + std::to_string(off) + " at rate " + std::to_string(rate);
    if (threw) {
        if (a.m_secs != s || a.m_ticks != t) out.push_back({"refusal-modified-timestamp", desc + ": exception but timestamp changed"});
        if (!must_refuse && Rz < ((i128)1 << 63)) out.push_back({"refused-valid-offset", desc + " refused although the result " + ref::u128s((u128)Rz) + " is representable"});
    } else {
        if (must_refuse) out.push_back({std::string("accepted-invalid-offset|") + (rate == 0 ? "rate0" : off == INT64_MIN ? "int64-min" : "negative-result"), desc + " accepted, gives (" + std::to_string(a.m_secs) + "," + std::to_string(a.m_ticks) + ")"});
        else if (Rz < ((i128)1 << 63) && ((u128)a.m_secs * rate + a.m_ticks != (u128)Rz || a.m_ticks >= rate)) out.push_back({"add-wrong", desc + " gives (" + std::to_string(a.m_secs) + "," + std::to_string(a.m_ticks) + ")"});
    }
}

int main(int argc, char** argv) {
    Args a = Args::parse(argc, argv); Result total; bool T = a.thorough();
    auto done = [&](int rc) { a.finish(total); return rc; };
    const Pools P = make_pools(1000000);

    if (a.mode == "hints") {
        struct Case { uint32_t qr, sig; uint8_t rr, oth; };
        auto run_case = [&](const Case& c, Result& R) {
            std::string rep = "qr=" + std::to_string(c.qr) + ";sig=" + std::to_string(c.sig) + ";rr=" + std::to_string(c.rr) + ";oth=" + std::to_string(c.oth);
            set_note(rep); std::vector<HV> out; check_hints(c.qr, c.sig, c.rr, c.oth, P, out, R); R.count("traces"); if (c.qr || c.sig) R.count("nontrivial");
            for (auto& v : out) R.violation("hints|" + v.key, v.what + " [" + rep + "]", rep);
        };
        if (!a.replay.empty()) { std::string s = slurp(a.replay); Case c; unsigned q, g, r, o; if (sscanf(s.c_str(), "qr=%u;sig=%u;rr=%u;oth=%u", &q, &g, &r, &o) != 4) return done(2); c = {q, g, (uint8_t)r, (uint8_t)o};
            Pool rp(1, 60); rp.run(1, [&](uint64_t, Result& R) { run_case(c, R); }, [&](uint64_t, const std::string& d, Result& R) { R.violation("hints|" + crash_key(d), d.substr(0, 1500), s); }, total); return done(total.viol.empty() ? 0 : 1); }
        // task index space: [0,2^18) QR masks | [0,2^17) sig masks | 16 rr x other | cross terms
        std::vector<Case> cross;
        auto devs = [&](uint32_t all, int bits, int maxdev) { std::vector<uint32_t> v; v.push_back(all); v.push_back(0);
            for (int i = 0; i < bits; i++) { v.push_back(all & ~(1u << i)); v.push_back(1u << i); if (maxdev >= 2) for (int j = i + 1; j < bits; j++) { v.push_back(all & ~(1u << i) & ~(1u << j)); v.push_back((1u << i) | (1u << j)); } } return v; };
        auto qv = devs(0x3ffff, 18, T ? 2 : 1), sv = devs(0x1ffff, 17, T ? 2 : 1);
        for (uint32_t q : qv) for (uint32_t s : sv) for (int ro = 0; ro < 16; ro++) { if (!T && !(ro == 15 || ro == 0 || ro == 5 || ro == 10)) continue; cross.push_back({q, s, (uint8_t)(ro & 3), (uint8_t)(ro >> 2)}); }
        uint64_t NQ = 1u << 18, NS = 1u << 17, N = NQ + NS + 16 + cross.size();
        uint64_t chunk = 256, ntasks = (N + chunk - 1) / chunk;
        Pool pool(a.jobs, 120);
        pool.run(ntasks, [&](uint64_t ti, Result& R) {
            if (a.expired()) { R.deadline_hit = true; return; }
            for (uint64_t i = ti * chunk; i < std::min(N, (ti + 1) * chunk); i++) {
                Case c;
                if (i < NQ) c = {(uint32_t)i, 0x1ffff, 3, 3}; else if (i < NQ + NS) c = {0x3ffff, (uint32_t)(i - NQ), 3, 3};
                else if (i < NQ + NS + 16) { unsigned k = (unsigned)(i - NQ - NS); c = {0x3ffff, 0x1ffff, (uint8_t)(k & 3), (uint8_t)(k >> 2)}; } else c = cross[i - NQ - NS - 16];
                run_case(c, R);
            }
            if (ti % 401 == 9) R.sample("qr mask / sig mask task " + std::to_string(ti) + " (256 consecutive masks)");
        }, [&](uint64_t, const std::string& d, Result& R) { R.violation("hints|" + crash_key(d), d.substr(0, 1500), pool.last_note); }, total);
        total.n["evaluations"] = total.n["traces"];
        total.notes.push_back("all 2^18 QR masks (signature hints all ones), all 2^17 signature masks (QR hints all ones), 16 rr x other combinations, " + std::to_string(cross.size()) + " cross terms");
        return done(0);
    }

    if (a.mode == "preamble") {
        std::vector<PreSpec> specs;
        if (!a.replay.empty()) { std::string s = slurp(a.replay); PreSpec ps = PreSpec::parse(s);
            Pool rp(1, 60); rp.run(1, [&](uint64_t, Result& R) { std::vector<HV> out; check_preamble(ps, out, R); for (auto& v : out) R.violation("preamble|" + v.key, v.what, s); },
                                  [&](uint64_t, const std::string& d, Result& R) { R.violation("preamble|" + crash_key(d), d.substr(0, 1500), s); }, total); return done(total.viol.empty() ? 0 : 1); }
        // (1) versions: exhaustive
        int vstep = T ? 1 : 1;
        for (int maj = 0; maj < 256; maj += vstep) for (int min = 0; min < 256; min += (T ? 1 : 5)) for (int priv : {-1, 0, 255}) { PreSpec s; s.maj = maj; s.min = min; s.priv = priv; specs.push_back(s); }
        if (!T) for (int min = 0; min < 256; min++) for (int priv : {-1, 0, 1, 255}) { PreSpec s; s.maj = 1; s.min = min; s.priv = priv; specs.push_back(s); }
        // (2) member subsets
        for (uint32_t sp = 0; sp < 128; sp++) {
            std::vector<std::pair<int, uint32_t>> cps;
            if (T) { cps.push_back({0, 0}); for (uint32_t cp = 0; cp < 1024; cp++) cps.push_back({1, cp}); }
            else { cps = {{0, 0}, {1, 0}, {1, 1023}}; int pc = __builtin_popcount(sp); if (pc <= 2 || pc >= 5) for (int i = 0; i < 10; i++) { cps.push_back({1, 1u << i}); cps.push_back({1, 1023u & ~(1u << i)}); } }
            for (auto& c : cps) { PreSpec s; s.sp_mask = sp; s.cp_mode = c.first; s.cp_mask = c.second; s.priv = (sp & 1) ? -1 : 1; specs.push_back(s); }
        }
        // (3) integer boundaries x lists x texts x constructors x number of sets
        for (int iv = 0; iv < 12; iv++) for (int l = 0; l < 5; l++) for (int tx = 0; tx < 4; tx++) { PreSpec s; s.ival = iv; s.lists = l; s.text = tx; s.sp_mask = 127; s.cp_mode = 1; s.cp_mask = 1023; specs.push_back(s); }
        for (int n = 1; n <= 8; n++) for (int ctor = 0; ctor < 4; ctor++) for (int priv : {-1, 0, 7}) for (int cpm = 0; cpm < 2; cpm++) { PreSpec s; s.nsets = n; s.ctor = ctor; s.priv = priv; s.cp_mode = cpm; s.cp_mask = 0x155; s.sp_mask = 0x2a; specs.push_back(s); }
        uint64_t chunk = 128, ntasks = (specs.size() + chunk - 1) / chunk;
        Pool pool(a.jobs, 120);
        pool.run(ntasks, [&](uint64_t ti, Result& R) {
            if (a.expired()) { R.deadline_hit = true; return; }
            for (uint64_t i = ti * chunk; i < std::min<uint64_t>(specs.size(), (ti + 1) * chunk); i++) {
                std::string rep = specs[i].str(); set_note(rep); std::vector<HV> out; check_preamble(specs[i], out, R); R.count("traces"); R.count("nontrivial");
                for (auto& v : out) R.violation("preamble|" + v.key, v.what + " [" + rep + "]", rep);
            }
            if (ti % 173 == 1) R.sample(specs[ti * chunk].str());
        }, [&](uint64_t, const std::string& d, Result& R) { R.violation("preamble|" + crash_key(d), d.substr(0, 1500), pool.last_note); }, total);
        total.n["evaluations"] = total.n["traces"];
        return done(0);
    }

    if (a.mode == "time") {
        auto smax = [](uint64_t rate) { return (uint64_t)((((u128)1 << 63) - 1) / rate); };
        struct Task { int kind; uint64_t rate; };
        std::vector<Task> tasks;
        for (uint64_t r : {1ULL, 2ULL, 3ULL, 7ULL, 10ULL, 1000ULL}) tasks.push_back({0, r});
        for (uint64_t r : {1ULL, 1000ULL, 1000000ULL, 1000000000ULL}) tasks.push_back({1, r});
        tasks.push_back({2, 0});
        auto run_task = [&](const Task& t, Result& R) {
            std::vector<HV> out; uint64_t n = 0;
            std::vector<std::pair<uint64_t, uint64_t>> pts;
            if (t.kind == 0) { for (uint64_t s = 0; s <= 3; s++) for (uint64_t k = 0; k < std::min<uint64_t>(t.rate, 10); k++) pts.push_back({s, k}); }
            else if (t.kind == 1) { uint64_t M = smax(t.rate); for (uint64_t s : {(uint64_t)0, (uint64_t)1, (uint64_t)0x7fffffff, (uint64_t)0x80000000ULL, (uint64_t)0xffffffffULL, (uint64_t)0x100000000ULL, M - 1, M}) for (uint64_t k : {(uint64_t)0, (uint64_t)1, t.rate - 1}) pts.push_back({s, k}); }
            if (t.kind <= 1) {
                for (auto& p : pts) for (auto& q : pts) { check_time(t.rate, p.first, p.second, q.first, q.second, out); n++; }
                std::vector<int64_t> offs = {INT64_MIN, INT64_MIN + 1, -(int64_t)0x100000000LL, -(int64_t)t.rate - 1, -(int64_t)t.rate, -1, 0, 1, (int64_t)t.rate - 1, (int64_t)t.rate, (int64_t)0x100000000LL, INT64_MAX};
                for (auto& p : pts) for (int64_t o : offs) { check_add(t.rate, p.first, p.second, o, out); n++; }
                // un-normalised reference operands are legal inputs for offsets too
                for (auto& p : pts) { check_time(t.rate, p.first, p.second + t.rate, 0, 0, out); n++; }
            } else {
                for (uint64_t s : {(uint64_t)0, (uint64_t)5, (uint64_t)0xffffffffULL}) for (int64_t o : {INT64_MIN, (int64_t)-1, (int64_t)0, (int64_t)1, INT64_MAX}) { check_add(0, s, 0, o, out); n++;
                    Timestamp x(s, 0), y(0, 0); bool threw = false; try { x.get_time_offset(y, 0); } catch (std::exception&) { threw = true; } if (!threw) out.push_back({"rate0-offset-accepted", "get_time_offset at rate 0 returned a value"}); }
            }
            R.count("traces", n); R.count("nontrivial", n);
            for (auto& v : out) R.violation("time|" + v.key, v.what, "kind=" + std::to_string(t.kind) + ";rate=" + std::to_string(t.rate));
            R.outcome("kind" + std::to_string(t.kind) + (out.empty() ? ":ok" : ":viol"));
            R.sample("kind=" + std::to_string(t.kind) + ";rate=" + std::to_string(t.rate) + ";points=" + std::to_string(pts.size()));
        };
        if (!a.replay.empty()) { std::string s = slurp(a.replay); int k; unsigned long long r; if (sscanf(s.c_str(), "kind=%d;rate=%llu", &k, &r) != 2) return done(2);
            Pool rp(1, 60); rp.run(1, [&](uint64_t, Result& R) { run_task({k, (uint64_t)r}, R); }, [&](uint64_t, const std::string& d, Result& R) { R.violation("time|" + crash_key(d), d.substr(0, 1500), s); }, total); return done(total.viol.empty() ? 0 : 1); }
        Pool pool(a.jobs, 120);
        pool.run(tasks.size(), [&](uint64_t ti, Result& R) { set_note("kind=" + std::to_string(tasks[ti].kind) + ";rate=" + std::to_string(tasks[ti].rate)); run_task(tasks[ti], R); },
                 [&](uint64_t, const std::string& d, Result& R) { R.violation("time|" + crash_key(d), d.substr(0, 1500), pool.last_note); }, total);
        total.n["evaluations"] = total.n["traces"];
        return done(0);
    }
    fprintf(stderr, "unknown mode\n"); return done(2);
}
