// E-VAL: exhaustive grids / boundary products of values.
//   --mode hints     (C04) all 2^18 QR masks, all 2^17 signature masks, rr x other, cross terms
//   --mode preamble  (C09) versions 256x256x3, member subsets, boundary integers, lists, texts, 1..8 sets
//   --mode time      (C17) offset / add-back / comparison / refusal grids against 128-bit arithmetic
#include "util.hpp"
#include "pools.hpp"
#include <zlib.h>
#include <dirent.h>
using namespace vh;
using namespace CDNS;
typedef unsigned __int128 u128; typedef __int128 i128;

// ======================================================================== hints (C04)
struct HV { std::string key, what; };

static std::string export_one_block(FilePreamble& fp, const std::vector<GenericQueryResponse>& qrs, const Pools& P, bool with_other, bool with_aec = true, bool with_mm = true) {
    std::vector<std::string> outs;
    { CdnsExporter e(fp, MemSink{&outs}, CborOutputCompression::NO_COMPRESSION);
      for (auto& q : qrs) e.buffer_qr(q);
      if (with_other && with_aec) { e.buffer_aec(P.aec[1]); e.buffer_aec(P.aec[1]); }
      if (with_other && with_mm) { e.buffer_mm(P.mm[0]); e.buffer_mm(P.mm[1]); e.buffer_mm(P.mm[3]); }   // mm[3] is earlier than every other record
      e.write_block(); }
    return outs.at(0);
}

// every member / array / table entry present in block b must be allowed by the hints (qr, sig, rrh, oth) the file states for it
static void stated_hints_respected(const ref::RBlock& b, uint32_t qr, uint32_t sig, uint8_t rrh, uint8_t oth, const std::string& pfx, std::vector<HV>& out0) {
    struct Out { std::vector<HV>& o; const std::string& p; void push_back(HV v) { v.key = p + v.key; o.push_back(v); } } out{out0, pfx};
    // presence => bit (bit table from RFC 8618 7.3.1.1.1; response question list shares bit 11)
    for (size_t i = 0; i < b.qr_keys.size(); i++) {
        uint32_t k = b.qr_keys[i];
        for (int key = 0; key <= 10; key++) if ((k >> key & 1) && !(qr >> key & 1)) out.push_back({"excluded-member|qr-key" + std::to_string(key), "QR item " + std::to_string(i) + " carries key " + std::to_string(key) + " whose hint bit is cleared"});
        static const int qe_bits[4] = {11, 12, 13, 14}, re_bits[4] = {11, 15, 16, 17};
        for (int m = 0; m < 4; m++) { if ((b.qr_qe[i] >> m & 1) && !(qr >> qe_bits[m] & 1)) out.push_back({"excluded-member|query-extended-" + std::to_string(m), "QR item " + std::to_string(i) + " query-extended member " + std::to_string(m)});
                                      if ((b.qr_re[i] >> m & 1) && !(qr >> re_bits[m] & 1)) out.push_back({"excluded-member|response-extended-" + std::to_string(m), "QR item " + std::to_string(i) + " response-extended member " + std::to_string(m)}); }
        if ((k >> 11 & 1) && b.qr_qe[i] == 0) out.push_back({"empty-extended", "query-extended present without members"});
    }
    for (size_t i = 0; i < b.sig_keys.size(); i++) for (int m = 0; m <= 16; m++) if ((b.sig_keys[i] >> m & 1) && (!(sig >> m & 1) || !(qr >> 4 & 1))) out.push_back({"excluded-member|sig-key" + std::to_string(m), "signature " + std::to_string(i) + " carries key " + std::to_string(m) + " whose hint bit is cleared"});
    for (size_t i = 0; i < b.rr_keys.size(); i++) { if ((b.rr_keys[i] & 4) && !(rrh & 1)) out.push_back({"excluded-member|rr-ttl", "rr " + std::to_string(i) + " carries ttl"}); if ((b.rr_keys[i] & 8) && !(rrh & 2)) out.push_back({"excluded-member|rr-rdata", "rr " + std::to_string(i) + " carries rdata"}); }
    if (b.has_aec_array && !(oth & 2)) out.push_back({"excluded-array|aec", "address events stored although their hint is cleared"});
    if (b.has_mm_array && !(oth & 1)) out.push_back({"excluded-array|mm", "malformed messages stored although their hint is cleared"});
    for (auto& u : b.unreachable) out.push_back({"unreachable-table-entry|" + u.substr(0, u.find('[')), u + " is not referenced by any stored item (value of an excluded field kept in a table)"});
}

// The same hints under a second parameter set (index 1; set 0 excludes everything it can) used three ways: blocks buffered by the exporter after
// set_active_block_parameters(1), a stand-alone CdnsBlock(bp, 1) handed to write_block(block), and that block cleared and filled again.
// Every block of the file must respect the hints of the parameter set it states, and state set 1.
static void check_hints_second_set(uint32_t qr, uint32_t sig, uint8_t rrh, uint8_t oth, const Pools& P, std::vector<HV>& out, Result& R) {
    BlockParameters bp0; bp0.storage_parameters.max_block_items = 100000; auto& h0 = bp0.storage_parameters.storage_hints; h0.query_response_hints = 0x1; h0.query_response_signature_hints = 0; h0.rr_hints = 0; h0.other_data_hints = 0;
    BlockParameters bp1; bp1.storage_parameters.max_block_items = 100000; bp1.storage_parameters.ticks_per_second = 1000; auto& h = bp1.storage_parameters.storage_hints; h.query_response_hints = qr; h.query_response_signature_hints = sig; h.rr_hints = rrh; h.other_data_hints = oth;
    std::vector<BlockParameters> bps = {bp0, bp1}; FilePreamble fp(bps); std::vector<std::string> outs; static const Pools P1 = make_pools(1000);
    model::Exporter M({model::from(bp0), model::from(bp1)}); M.set_active(1); M.write_block(); M.buffer_qr(P1.qr[0], nullptr); M.buffer_qr(P1.qr[3], nullptr); M.buffer_aec(P1.aec[1], nullptr); M.buffer_mm(P1.mm[0], nullptr); M.buffer_mm(P1.mm[3], nullptr);
    if (M.cur.items() == 0) { R.outcome("second-set:nothing-storable"); return; }
    auto fill = [&](CdnsBlock& b) { b.add_question_response_record(P1.qr[0]); b.add_question_response_record(P1.qr[3]); b.add_address_event_count(P1.aec[1]); b.add_malformed_message(P1.mm[0]); b.add_malformed_message(P1.mm[3]); };
    { CdnsExporter e(fp, MemSink{&outs}, CborOutputCompression::NO_COMPRESSION);
      e.set_active_block_parameters(1); e.write_block();                                  // arm the internal block with set 1
      e.buffer_qr(P1.qr[0]); e.buffer_qr(P1.qr[3]); e.buffer_aec(P1.aec[1]); e.buffer_mm(P1.mm[0]); e.buffer_mm(P1.mm[3]); e.write_block();
      CdnsBlock b(bp1, 1); fill(b); e.write_block(b); b.clear(); fill(b); e.write_block(b); b.clear(); fill(b); e.write_block(b);
      // a filled block refuses other parameters (documented: returns false when the block isn't empty); the refused call must leave it a set-1 block
      CdnsBlock c(bp1, 1); fill(c); if (c.set_block_parameters(bp0, 0)) out.push_back({"second-set|parameters-replaced-on-filled-block", "set_block_parameters on a block that holds items returned true"}); e.write_block(c); }
    ref::RFile rf; try { rf = ref::read_file(outs.at(0)); } catch (std::exception& e) { out.push_back({"second-set|invalid-output", e.what()}); return; }
    if (rf.blocks.size() != 5) { out.push_back({"second-set|block-count", "expected 5 blocks, file has " + std::to_string(rf.blocks.size())}); return; }
    static const char* WHO[] = {"exporter-buffered", "stand-alone", "stand-alone-reused", "stand-alone-reused-twice", "stand-alone-after-refused-reparametrisation"};
    for (size_t i = 0; i < 5; i++) { const ref::RBlock& b = rf.blocks[i]; const ref::RParams& rp = rf.params.at(b.bpi);
        stated_hints_respected(b, rp.qr_hints, rp.sig_hints, rp.rr_hints, rp.other_hints, std::string("second-set|") + WHO[i] + "|", out);
        if (b.bpi != 1) out.push_back({std::string("second-set|") + WHO[i] + "|states-other-parameter-set", std::string(WHO[i]) + " block built under parameter set 1 states set " + std::to_string(b.bpi)});
        else if (ref::block_dump(b) != M.cur.dump()) out.push_back({std::string("second-set|") + WHO[i] + "|content-differs", std::string(WHO[i]) + " block differs from the hint-filtered expectation"}); }
    R.outcome("second-set:ok");
}

static void check_hints(uint32_t qr, uint32_t sig, uint8_t rrh, uint8_t oth, const Pools& P, std::vector<HV>& out, Result& R) {
    BlockParameters bp; bp.storage_parameters.max_block_items = 100000;
    auto& h = bp.storage_parameters.storage_hints; h.query_response_hints = qr; h.query_response_signature_hints = sig; h.rr_hints = rrh; h.other_data_hints = oth;
    std::vector<BlockParameters> bps = {bp}; FilePreamble fp(bps);
    std::vector<GenericQueryResponse> qrs = {P.qr[0], P.qr[3]};
    std::string bytes = export_one_block(fp, qrs, P, true);
    // model expectation (both directions: nothing excluded is present, everything enabled is present)
    model::Params mp = model::from(bp); model::Exporter M({mp});
    for (auto& q : qrs) M.buffer_qr(q, nullptr); M.buffer_aec(P.aec[1], nullptr); M.buffer_aec(P.aec[1], nullptr); M.buffer_mm(P.mm[0], nullptr); M.buffer_mm(P.mm[1], nullptr); M.buffer_mm(P.mm[3], nullptr);
    bool any = M.cur.items() > 0;
    if (!any) { if (!bytes.empty()) out.push_back({"bytes-without-storable-record", "output not empty although no record is storable"}); R.outcome("nothing-storable"); return; }
    // "stored only when their hint bit is set": a record kind that the hints reject leaves no trace at all - the file equals the one written without offering those records
    if (!(oth & 1) && export_one_block(fp, qrs, P, true, true, false) != bytes) out.push_back({"rejected-records-change-the-output|mm", "with malformed messages excluded by the hints, offering malformed messages changes the file"});
    if (!(oth & 2) && export_one_block(fp, qrs, P, true, false, true) != bytes) out.push_back({"rejected-records-change-the-output|aec", "with address events excluded by the hints, offering address events changes the file"});
    ref::RFile rf;
    try { rf = ref::read_file(bytes); } catch (std::exception& e) { out.push_back({"invalid-output", e.what()}); return; }
    if (rf.blocks.size() != 1) { out.push_back({"block-count", "expected one block"}); return; }
    const ref::RBlock& b = rf.blocks[0]; const ref::RParams& rp = rf.params[0];
    if (rp.qr_hints != qr || rp.sig_hints != sig || rp.rr_hints != rrh || rp.other_hints != oth) out.push_back({"preamble-hints", "preamble states hints " + std::to_string(rp.qr_hints) + "," + std::to_string(rp.sig_hints) + "," + std::to_string(rp.rr_hints) + "," + std::to_string(rp.other_hints)});
    stated_hints_respected(b, qr, sig, rrh, oth, "", out);
    std::string expect = M.cur.dump(), got = ref::block_dump(b);
    if (expect != got) { size_t p = 0; while (p < expect.size() && p < got.size() && expect[p] == got[p]) p++; size_t eq = expect.rfind('=', p), sc = eq == std::string::npos ? eq : expect.find_last_of(";{[", eq);
        out.push_back({"content-differs|" + (eq != std::string::npos && sc != std::string::npos ? expect.substr(sc + 1, eq - sc - 1) : std::string("?")), "stored block differs from the hint-filtered expectation at " + std::to_string(p) + ": expected ..." + expect.substr(p > 30 ? p - 30 : 0, 90) + " got ..." + got.substr(p > 30 ? p - 30 : 0, 90)}); }
    R.outcome("qr" + std::to_string(b.qrs.size()) + "aec" + std::to_string(b.aecs.size()) + "mm" + std::to_string(b.mms.size()));
}

// ======================================================================== preamble (C09)
struct PreSpec {   // a compact description from which the FilePreamble is built (for replay)
    int maj = 1, min = 0, priv = 1;            // priv -1 absent
    int nsets = 1; uint32_t sp_mask = 0; int cp_mode = 0; uint32_t cp_mask = 0;   // cp_mode 0 absent, 1 present (members by mask)
    int ival = 0;   // integer boundary selector
    int lists = 0;  // list shape selector
    int text = 0;   // text selector
    int ctor = 0;   // construction path
    int alt = 0; uint32_t alt_sp = 0, alt_cp = 0; int alt_cpm = 0;   // alt=1: odd-numbered parameter sets use these member subsets instead (sets that differ in which optional members they carry)
    std::string str() const { char b[200]; snprintf(b, sizeof b, "maj=%d;min=%d;priv=%d;nsets=%d;sp=%u;cpm=%d;cp=%u;ival=%d;lists=%d;text=%d;ctor=%d;alt=%d;asp=%u;acp=%u;acpm=%d", maj, min, priv, nsets, sp_mask, cp_mode, cp_mask, ival, lists, text, ctor, alt, alt_sp, alt_cp, alt_cpm); return b; }
    static PreSpec parse(const std::string& s) { PreSpec p; sscanf(s.c_str(), "maj=%d;min=%d;priv=%d;nsets=%d;sp=%u;cpm=%d;cp=%u;ival=%d;lists=%d;text=%d;ctor=%d;alt=%d;asp=%u;acp=%u;acpm=%d", &p.maj, &p.min, &p.priv, &p.nsets, &p.sp_mask, &p.cp_mode, &p.cp_mask, &p.ival, &p.lists, &p.text, &p.ctor, &p.alt, &p.alt_sp, &p.alt_cp, &p.alt_cpm); return p; }
};
static const uint64_t IV[] = {0, 1, 23, 24, 255, 256, 65535, 65536, 0xffffffffULL, 0x100000000ULL, 0x7fffffffffffffffULL, 0xffffffffffffffffULL};
static const char* TX[] = {"", "ascii text", "h\xc3\xa9llo \xe2\x82\xac \xf0\x9f\x98\x80", nullptr};

static BlockParameters spec_bp(const PreSpec& s0, int idx) {
    PreSpec s = s0; if (s0.alt && (idx & 1)) { s.sp_mask = s0.alt_sp; s.cp_mask = s0.alt_cp; s.cp_mode = s0.alt_cpm; }
    BlockParameters bp; auto& sp = bp.storage_parameters;
    uint64_t iv = IV[s.ival % 12];
    sp.ticks_per_second = s.ival ? iv : 1000000; sp.max_block_items = s.ival ? IV[(s.ival + 5) % 12] : 10000;
    if (s.ival) { sp.storage_hints.query_response_hints = (uint32_t)iv; sp.storage_hints.query_response_signature_hints = (uint32_t)IV[(s.ival + 3) % 12]; sp.storage_hints.rr_hints = (uint8_t)iv; sp.storage_hints.other_data_hints = (uint8_t)IV[(s.ival + 1) % 12]; }
    std::string txt = s.text == 3 ? std::string(300, 't') : std::string(TX[s.text % 3]);
    if (s.sp_mask & 1) sp.storage_flags = (StorageFlagsMask)(s.ival ? (uint8_t)iv : 5);
    if (s.sp_mask & 2) sp.client_address_prefix_ipv4 = s.ival ? (uint8_t)iv : 24;
    if (s.sp_mask & 4) sp.client_address_prefix_ipv6 = s.ival ? (uint8_t)IV[(s.ival + 1) % 12] : 56;
    if (s.sp_mask & 8) sp.server_address_prefix_ipv4 = 0;
    if (s.sp_mask & 16) sp.server_address_prefix_ipv6 = 255;
    if (s.sp_mask & 32) sp.sampling_method = txt;
    if (s.sp_mask & 64) sp.anonymization_method = txt + "x";
    switch (s.lists) {
    case 0: break;
    case 1: sp.opcodes.clear(); sp.rr_types.clear(); break;
    case 2: sp.opcodes = {(OpCodes)255}; sp.rr_types = {(RrTypes)65535}; break;
    case 3: sp.opcodes.clear(); sp.rr_types.clear(); for (int i = 0; i < 300; i++) { sp.opcodes.push_back((OpCodes)((i * 7) & 255)); sp.rr_types.push_back((RrTypes)((i * 331) & 65535)); } break;
    case 4: sp.opcodes = {(OpCodes)5, (OpCodes)0, (OpCodes)5}; sp.rr_types = {(RrTypes)28, (RrTypes)1, (RrTypes)28, (RrTypes)0}; break;
    }
    if (s.cp_mode) {
        CollectionParameters c;
        if (s.cp_mask & 1) c.query_timeout = s.ival ? iv : 5; if (s.cp_mask & 2) c.skew_timeout = s.ival ? IV[(s.ival + 2) % 12] : 10; if (s.cp_mask & 4) c.snaplen = 65535;
        if (s.cp_mask & 8) c.promisc = (bool)(idx & 1);
        if (s.cp_mask & 16) c.interfaces = {"eth0", txt}; if (s.cp_mask & 32) c.server_address = {std::string("\x7f\0\0\1", 4), std::string(16, '\xfe'), std::string()};
        if (s.cp_mask & 64) c.vlan_ids = {0, 1, 4095, 65535}; if (s.cp_mask & 128) c.filter = txt; if (s.cp_mask & 256) c.generator_id = std::string("gen ") + txt; if (s.cp_mask & 512) c.host_id = txt;
        bp.collection_parameters = c;
    }
    // make set idx differ from every other set in exactly one member
    if (idx > 0) sp.max_block_items = 100 + idx;
    return bp;
}

static void check_preamble(const PreSpec& s, std::vector<HV>& out, Result& R) {
    std::vector<BlockParameters> bps; for (int i = 0; i < (s.ctor == 3 ? 1 : s.nsets); i++) bps.push_back(spec_bp(s, i));
    std::unique_ptr<FilePreamble> fp;
    switch (s.ctor) {
    case 0: fp.reset(new FilePreamble(bps)); break;                                  // FilePreamble(bps)
    case 1: fp.reset(new FilePreamble()); fp->m_block_parameters = bps; break;       // default ctor + assignment
    case 2: fp.reset(new FilePreamble(bps, boost::optional<uint8_t>(7))); break;     // two-argument ctor (argument is ignored upstream: compare the object as it stands)
    case 3: fp.reset(new FilePreamble(bps)); for (int i = 1; i < s.nsets; i++) { BlockParameters b = spec_bp(s, i); fp->add_block_parameters(b); } break;
    }
    fp->m_major_format_version = (uint8_t)s.maj; fp->m_minor_format_version = (uint8_t)s.min;
    if (s.priv < 0) fp->m_private_version = boost::none; else fp->m_private_version = (uint8_t)s.priv;
    std::string before = lib::dump(*fp);
    std::vector<std::string> outs;
    { CdnsExporter e(*fp, MemSink{&outs}, CborOutputCompression::NO_COMPRESSION); GenericQueryResponse q; q.client_port = 1; q.asn = std::string("x"); e.buffer_qr(q); e.write_block(); }
    const std::string& bytes = outs.at(0);
    if (bytes.empty()) { R.outcome("no-output"); return; }   // e.g. hints 0 and nothing storable cannot happen: asn has no hint
    std::string rp;
    try { ref::RFile rf = ref::read_file(bytes); rp = rf.preamble; } catch (std::exception& e) { out.push_back({"invalid-output|" + std::string(s.cp_mode && s.cp_mask == 0 ? "empty-collection-parameters" : "other"), std::string("independent reader rejects the file: ") + e.what()}); }
    lib::LibFile lf = lib::read_bytes(bytes);
    if (!lf.header_ok) { out.push_back({"library-reader-rejects|" + std::string(s.cp_mode && s.cp_mask == 0 ? "empty-collection-parameters" : "other"), "CdnsReader fails on the written file: " + lf.end}); return; }
    auto where = [&](const std::string& a, const std::string& b) { size_t p = 0; while (p < a.size() && p < b.size() && a[p] == b[p]) p++; size_t eq = b.rfind('=', p), sc = eq == std::string::npos ? eq : b.find_last_of(";{", eq); return (eq != std::string::npos && sc != std::string::npos) ? b.substr(sc + 1, eq - sc - 1) : std::string("?"); };
    if (lf.preamble != before) out.push_back({"library-reader|" + where(lf.preamble, before), "preamble read back by CdnsReader differs: written " + before.substr(0, 60) + "... read " + lf.preamble.substr(0, 60)});
    if (!rp.empty() && rp != before) out.push_back({"file-bytes|" + where(rp, before), "preamble bytes (independent reader) differ from the object written: " + rp.substr(0, 80)});
    R.outcome(std::string("sets") + std::to_string(s.nsets) + (s.cp_mode ? "cp" : "") + (s.priv < 0 ? "nopriv" : ""));
}

// ======================================================================== time (C17)
static void check_time(uint64_t rate, uint64_t s1, uint64_t t1, uint64_t s2, uint64_t t2, std::vector<HV>& out) {
    Timestamp a(s1, t1), b(s2, t2);
    u128 A = (u128)s1 * rate + t1, B = (u128)s2 * rate + t2;
    bool in_range = A < ((u128)1 << 63) && B < ((u128)1 << 63);
    if (!in_range) return;
    i128 D = (i128)A - (i128)B;
    int64_t d = a.get_time_offset(b, rate);
    if ((i128)d != D) { out.push_back({"offset-wrong", "offset of (" + std::to_string(s1) + "," + std::to_string(t1) + ") from (" + std::to_string(s2) + "," + std::to_string(t2) + ") at rate " + std::to_string(rate) + " is " + std::to_string(d)}); return; }
    Timestamp c = b; c.add_time_offset(d, rate);
    if ((u128)c.m_secs * rate + c.m_ticks != A || c.m_ticks >= rate) out.push_back({"add-back-wrong", "adding the offset back gives (" + std::to_string(c.m_secs) + "," + std::to_string(c.m_ticks) + ")"});
    if (t1 < rate && t2 < rate) {
        if ((a < b) != (A < B)) out.push_back({"operator<", "operator< disagrees with the instants"});
        if ((a <= b) != (A <= B)) out.push_back({"operator<=", "operator<= disagrees with the instants"});
    }
}
static void check_add(uint64_t rate, uint64_t s, uint64_t t, int64_t off, std::vector<HV>& out) {
    Timestamp a(s, t); u128 A = (u128)s * rate + t;
    if (A >= ((u128)1 << 63)) return;
    i128 Rz = (i128)A + (i128)off; bool must_refuse = rate == 0 || Rz < 0;
    bool threw = false;
    try { a.add_time_offset(off, rate); } catch (std::exception&) { threw = true; }
    std::string desc = "(" + std::to_string(s) + "," + std::to_string(t) + ") + " + std::to_string(off) + " at rate " + std::to_string(rate);
    if (threw) {
        if (a.m_secs != s || a.m_ticks != t) out.push_back({"refusal-modified-timestamp", desc + ": exception but timestamp changed"});
        if (!must_refuse && Rz < ((i128)1 << 63)) out.push_back({"refused-valid-offset", desc + " refused although the result " + ref::u128s((u128)Rz) + " is representable"});
    } else {
        if (must_refuse) out.push_back({std::string("accepted-invalid-offset|") + (rate == 0 ? "rate0" : off == INT64_MIN ? "int64-min" : "negative-result"), desc + " accepted, gives (" + std::to_string(a.m_secs) + "," + std::to_string(a.m_ticks) + ")"});
        else if (Rz < ((i128)1 << 63) && ((u128)a.m_secs * rate + a.m_ticks != (u128)Rz || a.m_ticks >= rate)) out.push_back({"add-wrong", desc + " gives (" + std::to_string(a.m_secs) + "," + std::to_string(a.m_ticks) + ")"});
    }
}

int main(int argc, char** argv) {
    Args a = Args::parse(argc, argv); Result total; bool T = a.thorough();
    auto done = [&](int rc) { a.finish(total); return rc; };
    const Pools P = make_pools(1000000);

    if (a.mode == "hints") {
        struct Case { uint32_t qr, sig; uint8_t rr, oth; };
        auto run_case = [&](const Case& c, Result& R) {
            std::string rep = "qr=" + std::to_string(c.qr) + ";sig=" + std::to_string(c.sig) + ";rr=" + std::to_string(c.rr) + ";oth=" + std::to_string(c.oth);
            set_note(rep); std::vector<HV> out; check_hints(c.qr, c.sig, c.rr, c.oth, P, out, R); if (((c.qr * 2654435761u) ^ (c.sig * 40503u) ^ c.rr ^ (c.oth << 3)) % 8 == 0 || (c.qr == 0x3ffff && c.sig == 0x1ffff)) { check_hints_second_set(c.qr, c.sig, c.rr, c.oth, P, out, R); R.count("second_set_cases"); } R.count("traces"); if (c.qr || c.sig) R.count("nontrivial");
            for (auto& v : out) R.violation("hints|" + v.key, v.what + " [" + rep + "]", rep);
        };
        if (!a.replay.empty() && slurp(a.replay).rfind("relabel", 0) != 0) { std::string s = slurp(a.replay); Case c; unsigned q, g, r, o; if (sscanf(s.c_str(), "qr=%u;sig=%u;rr=%u;oth=%u", &q, &g, &r, &o) != 4) return done(2); c = {q, g, (uint8_t)r, (uint8_t)o};
            Pool rp(1, 60); rp.run(1, [&](uint64_t, Result& R) { run_case(c, R); }, [&](uint64_t, const std::string& d, Result& R) { R.violation("hints|" + crash_key(d), d.substr(0, 1500), s); }, total); return done(total.viol.empty() ? 0 : 1); }
        // relabel: a block that already holds items (every non-empty subset of {query/response, malformed message, address event}) built under other-data hints A is asked to take
        // parameters B (index 1) through set_block_parameters, then written into a file whose preamble lists A and B. Whatever the call answers, the block in the file must conform
        // to the hints the preamble states for the index the block names: no address events / malformed messages under a cleared bit, no query/response member whose bit is cleared.
        auto run_relabel = [&](Result& R) {
            const Pools PL = make_pools(1000000);
            for (int K = 1; K < 8; K++) for (int oa = 0; oa < 4; oa++) for (int ob = 0; ob < 4; ob++) for (int qb = 0; qb < 3; qb++) for (int order = 0; order < 2; order++) {
                std::string rep = "relabel;K=" + std::to_string(K) + ";oa=" + std::to_string(oa) + ";ob=" + std::to_string(ob) + ";qb=" + std::to_string(qb) + ";order=" + std::to_string(order); set_note(rep); R.count("traces"); R.count("nontrivial"); R.count("relabel_cases");
                BlockParameters A, B; A.storage_parameters.storage_hints.other_data_hints = (uint8_t)oa; B.storage_parameters.storage_hints.other_data_hints = (uint8_t)ob;
                if (qb == 1) B.storage_parameters.storage_hints.query_response_hints = 0; if (qb == 2) B.storage_parameters.storage_hints.query_response_hints &= ~0x1fu;
                std::vector<BlockParameters> bps = {A, B}; FilePreamble fp(bps); CdnsBlock b(bps[0], 0);
                auto add = [&](int what) { if (what == 0 && (K & 1)) b.add_question_response_record(PL.qr[0]); if (what == 1 && (K & 2)) b.add_malformed_message(PL.mm[0]); if (what == 2 && (K & 4)) b.add_address_event_count(PL.aec[0]); };
                if (order == 0) { add(0); add(1); add(2); } else { add(2); add(1); add(0); }
                b.set_block_parameters(bps[1], 1);
                std::vector<std::string> outs; { CdnsExporter ex(fp, MemSink{&outs}, CborOutputCompression::NO_COMPRESSION); ex.write_block(b); }
                std::vector<HV> out; if (outs.empty() || outs[0].empty()) continue;   // nothing was stored (the items were refused under A): nothing to conform
                R.count("relabel_files");
                try { ref::RFile rf = ref::read_file(outs.at(0));
                    for (auto& rb : rf.blocks) { uint64_t idx = rb.has_bpi ? rb.bpi : 0; if (idx >= rf.params.size()) { out.push_back({"relabel|parameters-index-out-of-range", "block names parameters " + std::to_string(idx)}); continue; } const ref::RParams& hp = rf.params[idx];
                        if (!rb.aecs.empty() && !(hp.other_hints & 2)) out.push_back({"relabel|address-events-under-cleared-hint", "a block under parameters " + std::to_string(idx) + " (other-data hints " + std::to_string(hp.other_hints) + ") stores " + std::to_string(rb.aecs.size()) + " address event(s)"});
                        if (!rb.mms.empty() && !(hp.other_hints & 1)) out.push_back({"relabel|malformed-messages-under-cleared-hint", "a block under parameters " + std::to_string(idx) + " (other-data hints " + std::to_string(hp.other_hints) + ") stores " + std::to_string(rb.mms.size()) + " malformed message(s)"});
                        for (uint32_t km : rb.qr_keys) for (int k = 0; k < 5; k++) if ((km >> k & 1) && !(hp.qr_hints >> k & 1)) { out.push_back({"relabel|query-response-member-under-cleared-hint", "a query/response under parameters " + std::to_string(idx) + " (hints " + std::to_string(hp.qr_hints) + ") stores member " + std::to_string(k)}); break; }
                        if (!rb.unreachable.empty()) out.push_back({"relabel|unreachable-table-entry", rb.unreachable[0]}); } }
                catch (std::exception& e) { out.push_back({"relabel|invalid-output", e.what()}); }
                for (auto& v : out) R.violation("hints|" + v.key, v.what + " [" + rep + "]", rep);
                if (!out.empty()) { R.outcome("relabel:viol"); return; } }
            R.outcome("relabel:ok");
        };
        if (!a.replay.empty() && slurp(a.replay).rfind("relabel", 0) == 0) { std::string s = slurp(a.replay); Pool rp(1, 60); rp.run(1, [&](uint64_t, Result& R) { run_relabel(R); }, [&](uint64_t, const std::string& d, Result& R) { R.violation("hints|" + crash_key(d), d.substr(0, 1500), s); }, total); return done(total.viol.empty() ? 0 : 1); }
        { Pool rl(1, 120); rl.run(1, [&](uint64_t, Result& R) { run_relabel(R); }, [&](uint64_t, const std::string& d, Result& R) { R.violation("hints|" + crash_key(d), d.substr(0, 1500), "relabel"); }, total); }
        // task index space: [0,2^18) QR masks | [0,2^17) sig masks | 16 rr x other | cross terms
        std::vector<Case> cross;
        auto devs = [&](uint32_t all, int bits, int maxdev) { std::vector<uint32_t> v; v.push_back(all); v.push_back(0);
            for (int i = 0; i < bits; i++) { v.push_back(all & ~(1u << i)); v.push_back(1u << i); if (maxdev >= 2) for (int j = i + 1; j < bits; j++) { v.push_back(all & ~(1u << i) & ~(1u << j)); v.push_back((1u << i) | (1u << j)); } } return v; };
        auto qv = devs(0x3ffff, 18, T ? 2 : 1), sv = devs(0x1ffff, 17, T ? 2 : 1);
        for (uint32_t q : qv) for (uint32_t s : sv) for (int ro = 0; ro < 16; ro++) { if (!T && !(ro == 15 || ro == 0 || ro == 5 || ro == 10)) continue; cross.push_back({q, s, (uint8_t)(ro & 3), (uint8_t)(ro >> 2)}); }
        uint64_t NQ = 1u << 18, NS = 1u << 17, N = NQ + NS + 16 + cross.size();
        uint64_t chunk = 256, ntasks = (N + chunk - 1) / chunk;
        Pool pool(a.jobs, 120);
        pool.run(ntasks, [&](uint64_t ti, Result& R) {
            if (a.expired()) { R.deadline_hit = true; return; }
            for (uint64_t i = ti * chunk; i < std::min(N, (ti + 1) * chunk); i++) {
                Case c;
                if (i < NQ) c = {(uint32_t)i, 0x1ffff, 3, 3}; else if (i < NQ + NS) c = {0x3ffff, (uint32_t)(i - NQ), 3, 3};
                else if (i < NQ + NS + 16) { unsigned k = (unsigned)(i - NQ - NS); c = {0x3ffff, 0x1ffff, (uint8_t)(k & 3), (uint8_t)(k >> 2)}; } else c = cross[i - NQ - NS - 16];
                run_case(c, R);
            }
            if (ti % 401 == 9) R.sample("qr mask / sig mask task " + std::to_string(ti) + " (256 consecutive masks)");
        }, [&](uint64_t, const std::string& d, Result& R) { R.violation("hints|" + crash_key(d), d.substr(0, 1500), pool.last_note); }, total);
        total.n["evaluations"] = total.n["traces"];
        total.notes.push_back("all 2^18 QR masks (signature hints all ones), all 2^17 signature masks (QR hints all ones), 16 rr x other combinations, " + std::to_string(cross.size()) + " cross terms");
        return done(0);
    }

    if (a.mode == "preamble") {
        std::vector<PreSpec> specs;
        if (!a.replay.empty()) { std::string s = slurp(a.replay); PreSpec ps = PreSpec::parse(s);
            Pool rp(1, 60); rp.run(1, [&](uint64_t, Result& R) { std::vector<HV> out; check_preamble(ps, out, R); for (auto& v : out) R.violation("preamble|" + v.key, v.what, s); },
                                  [&](uint64_t, const std::string& d, Result& R) { R.violation("preamble|" + crash_key(d), d.substr(0, 1500), s); }, total); return done(total.viol.empty() ? 0 : 1); }
        // (1) versions: exhaustive
        int vstep = T ? 1 : 1;
        for (int maj = 0; maj < 256; maj += vstep) for (int min = 0; min < 256; min += (T ? 1 : 5)) for (int priv : {-1, 0, 255}) { PreSpec s; s.maj = maj; s.min = min; s.priv = priv; specs.push_back(s); }
        if (!T) for (int min = 0; min < 256; min++) for (int priv : {-1, 0, 1, 255}) { PreSpec s; s.maj = 1; s.min = min; s.priv = priv; specs.push_back(s); }
        // (2) member subsets
        for (uint32_t sp = 0; sp < 128; sp++) {
            std::vector<std::pair<int, uint32_t>> cps;
            if (T) { cps.push_back({0, 0}); for (uint32_t cp = 0; cp < 1024; cp++) cps.push_back({1, cp}); }
            else { cps = {{0, 0}, {1, 0}, {1, 1023}}; int pc = __builtin_popcount(sp); if (pc <= 2 || pc >= 5) for (int i = 0; i < 10; i++) { cps.push_back({1, 1u << i}); cps.push_back({1, 1023u & ~(1u << i)}); } }
            for (auto& c : cps) { PreSpec s; s.sp_mask = sp; s.cp_mode = c.first; s.cp_mask = c.second; s.priv = (sp & 1) ? -1 : 1; specs.push_back(s); }
        }
        // (3) integer boundaries x lists x texts x constructors x number of sets
        for (int iv = 0; iv < 12; iv++) for (int l = 0; l < 5; l++) for (int tx = 0; tx < 4; tx++) { PreSpec s; s.ival = iv; s.lists = l; s.text = tx; s.sp_mask = 127; s.cp_mode = 1; s.cp_mask = 1023; specs.push_back(s); }
        for (int n = 1; n <= 8; n++) for (int ctor = 0; ctor < 4; ctor++) for (int priv : {-1, 0, 7}) for (int cpm = 0; cpm < 2; cpm++) { PreSpec s; s.nsets = n; s.ctor = ctor; s.priv = priv; s.cp_mode = cpm; s.cp_mask = 0x155; s.sp_mask = 0x2a; specs.push_back(s); }
        // (4) parameter sets that differ in WHICH optional members they carry: member m present in the even sets only / in the odd sets only / missing from one side
        for (int n : {2, 3, 5}) for (int m = 0; m < 18; m++) for (int pat = 0; pat < 4; pat++) {
            PreSpec s; s.nsets = n; s.alt = 1; uint32_t spb = m < 7 ? 1u << m : 0, cpb = m >= 7 && m < 17 ? 1u << (m - 7) : 0;
            if (m == 17) { s.cp_mode = pat & 1; s.alt_cpm = !(pat & 1); s.cp_mask = s.alt_cp = (pat & 2) ? 1023 : 0; s.sp_mask = s.alt_sp = 0; }
            else { uint32_t all_sp = 127, all_cp = 1023; s.cp_mode = s.alt_cpm = 1;
                   switch (pat) { case 0: s.sp_mask = spb; s.cp_mask = cpb; s.alt_sp = 0; s.alt_cp = 0; break; case 1: s.sp_mask = 0; s.cp_mask = 0; s.alt_sp = spb; s.alt_cp = cpb; break;
                                  case 2: s.sp_mask = all_sp; s.cp_mask = all_cp; s.alt_sp = all_sp & ~spb; s.alt_cp = all_cp & ~cpb; break; default: s.sp_mask = all_sp & ~spb; s.cp_mask = all_cp & ~cpb; s.alt_sp = all_sp; s.alt_cp = all_cp; break; } }
            specs.push_back(s); }
        uint64_t chunk = 128, ntasks = (specs.size() + chunk - 1) / chunk;
        Pool pool(a.jobs, 120);
        pool.run(ntasks, [&](uint64_t ti, Result& R) {
            if (a.expired()) { R.deadline_hit = true; return; }
            for (uint64_t i = ti * chunk; i < std::min<uint64_t>(specs.size(), (ti + 1) * chunk); i++) {
                std::string rep = specs[i].str(); set_note(rep); std::vector<HV> out; check_preamble(specs[i], out, R); R.count("traces"); R.count("nontrivial");
                for (auto& v : out) R.violation("preamble|" + v.key, v.what + " [" + rep + "]", rep);
            }
            if (ti % 173 == 1) R.sample(specs[ti * chunk].str());
        }, [&](uint64_t, const std::string& d, Result& R) { R.violation("preamble|" + crash_key(d), d.substr(0, 1500), pool.last_note); }, total);
        total.n["evaluations"] = total.n["traces"];
        return done(0);
    }

    if (a.mode == "time") {
        auto smax = [](uint64_t rate) { return (uint64_t)((((u128)1 << 63) - 1) / rate); };
        struct Task { int kind; uint64_t rate; };
        std::vector<Task> tasks;
        for (uint64_t r : {1ULL, 2ULL, 3ULL, 7ULL, 10ULL, 1000ULL}) tasks.push_back({0, r});
        for (uint64_t r : {1ULL, 1000ULL, 1000000ULL, 1000000000ULL}) tasks.push_back({1, r});
        tasks.push_back({2, 0});
        for (uint64_t i = 0; i < 4; i++) tasks.push_back({4, i});   // kind 4: blocks built from RAW QueryResponse / MalformedMessage items (the low-level overloads keep the earliest time themselves)
        for (uint64_t r : {1ULL, 1000ULL, 1000000ULL, 1000000000ULL}) tasks.push_back({5, r});   // kind 5: blocks whose times sit at the 2^31 / 2^32 / 2^63 boundaries, through the file and both readers
        static const uint64_t RR[] = {1, 1000, 1000000, 1000000000}; for (uint64_t i = 0; i < 16; i++) if (i / 4 != i % 4) tasks.push_back({3, i});   // kind 3: a block object re-used for a file with another tick rate (rate = 4 * first + second)
        auto run_task = [&](const Task& t, Result& R) {
            std::vector<HV> out; uint64_t n = 0;
            if (t.kind == 4) { // every ordered triple over 8 instants x {raw query/response, raw malformed message} per position pattern t.rate (bit i: item i is a malformed message; pattern 3 = mixed the other way)
                static const uint64_t TS[8][2] = {{9, 500}, {10, 100}, {10, 500}, {9, 100}, {10, 0}, {9, 999999}, {8, 100}, {11, 100}};
                BlockParameters bp; bp.storage_parameters.max_block_items = 1000; std::vector<BlockParameters> bps = {bp}; FilePreamble fp(bps); const uint64_t tps = bp.storage_parameters.ticks_per_second;
                for (int a0 = 0; a0 < 8; a0++) for (int a1 = 0; a1 < 8; a1++) for (int a2 = 0; a2 < 8; a2++) { int idx[3] = {a0, a1, a2}; CdnsBlock b(bp, 0); std::vector<std::pair<uint64_t, uint64_t>> want_q, want_m;
                    for (int i = 0; i < 3; i++) { bool mm = (t.rate >> (i % 2)) & 1; if (t.rate == 3) mm = i != 1; Timestamp ts(TS[idx[i]][0], TS[idx[i]][1]);
                        if (mm) { MalformedMessage m; m.time_offset = ts; m.client_port = 7; b.add_malformed_message(m); want_m.push_back({ts.m_secs, ts.m_ticks}); } else { QueryResponse q; q.time_offset = ts; q.client_port = 7; b.add_question_response_record(q); want_q.push_back({ts.m_secs, ts.m_ticks}); } }
                    std::string rep = "kind=4;rate=" + std::to_string(t.rate) + ";i=" + std::to_string(a0 * 64 + a1 * 8 + a2); set_note(rep); R.count("traces"); R.count("nontrivial"); n++;
                    Timestamp e = b.m_block_preamble.earliest_time; u128 ei = (u128)e.m_secs * tps + e.m_ticks; bool late = false;
                    for (int i = 0; i < 3; i++) { u128 x = (u128)TS[idx[i]][0] * tps + TS[idx[i]][1]; if (ei > x) late = true; }
                    if (late) out.push_back({"raw-items|earliest-time-later-than-a-record", "raw items at " + std::to_string(TS[a0][0]) + "." + std::to_string(TS[a0][1]) + ", " + std::to_string(TS[a1][0]) + "." + std::to_string(TS[a1][1]) + ", " + std::to_string(TS[a2][0]) + "." + std::to_string(TS[a2][1]) + ": the block's earliest time is " + std::to_string(e.m_secs) + "." + std::to_string(e.m_ticks)});
                    std::vector<std::string> outs; { CdnsExporter ex(fp, MemSink{&outs}, CborOutputCompression::NO_COMPRESSION); ex.write_block(b); }
                    try { std::istringstream is(outs.at(0)); CdnsReader rd(is); bool eof = false; CdnsBlockRead br = rd.read_block(eof); std::vector<std::pair<uint64_t, uint64_t>> got_q, got_m;
                          for (auto& q : br.m_query_responses) if (q.time_offset) got_q.push_back({q.time_offset->m_secs, q.time_offset->m_ticks}); for (auto& m : br.m_malformed_messages) if (m.time_offset) got_m.push_back({m.time_offset->m_secs, m.time_offset->m_ticks});
                          if (got_q != want_q || got_m != want_m) out.push_back({"raw-items|times-not-recovered", "record times read back differ from the times of the raw items"}); }
                    catch (std::exception& x) { out.push_back({"raw-items|unreadable", x.what()}); }
                    for (auto& v : out) R.violation("time|" + v.key, v.what, rep); if (!out.empty()) { R.outcome("kind4:viol"); return; } }
                R.outcome("kind4:ok"); return; }
            if (t.kind == 5) { // every ordered pair over the boundary instants of kind 1 (seconds 0, 1, 2^31-1, 2^31, 2^32-1, 2^32, max-1, max at this rate; ticks 0, 1, rate-1): two raw items in one block, written, read by the library reader and by the independent reader
                const uint64_t M = smax(t.rate); std::vector<std::pair<uint64_t, uint64_t>> P5; std::set<std::pair<uint64_t, uint64_t>> seen5;
                for (uint64_t s : {(uint64_t)0, (uint64_t)1, (uint64_t)0x7fffffff, (uint64_t)0x80000000ULL, (uint64_t)0xffffffffULL, (uint64_t)0x100000000ULL, M - 1, M}) for (uint64_t k : {(uint64_t)0, (uint64_t)1, t.rate - 1}) if (k < t.rate && (u128)s * t.rate + k < ((u128)1 << 63) && seen5.insert({s, k}).second) P5.push_back({s, k});   // normalised instants only (ticks < rate): those are recovered as the same pair
                BlockParameters bp; bp.storage_parameters.ticks_per_second = t.rate; bp.storage_parameters.max_block_items = 1000; std::vector<BlockParameters> bps = {bp}; FilePreamble fp(bps);
                for (size_t i0 = 0; i0 < P5.size() && out.empty(); i0++) for (size_t i1 = 0; i1 < P5.size() && out.empty(); i1++) for (int mm = 0; mm < 2 && out.empty(); mm++) {
                    std::string rep = "kind=5;rate=" + std::to_string(t.rate); set_note(rep); R.count("traces"); R.count("nontrivial"); n++;
                    CdnsBlock b(bp, 0); std::vector<std::pair<uint64_t, uint64_t>> want = {P5[i0], P5[i1]}, got;
                    { QueryResponse q; q.time_offset = Timestamp(P5[i0].first, P5[i0].second); q.client_port = 7; b.add_question_response_record(q); }
                    if (mm) { MalformedMessage m; m.time_offset = Timestamp(P5[i1].first, P5[i1].second); m.client_port = 7; b.add_malformed_message(m); } else { QueryResponse q; q.time_offset = Timestamp(P5[i1].first, P5[i1].second); q.client_port = 8; b.add_question_response_record(q); }
                    std::string where = "items at (" + std::to_string(P5[i0].first) + "," + std::to_string(P5[i0].second) + ") and (" + std::to_string(P5[i1].first) + "," + std::to_string(P5[i1].second) + ") at rate " + std::to_string(t.rate) + (mm ? " [second is a malformed message]" : "");
                    std::vector<std::string> outs; { CdnsExporter ex(fp, MemSink{&outs}, CborOutputCompression::NO_COMPRESSION); ex.write_block(b); }
                    try { std::istringstream is(outs.at(0)); CdnsReader rd(is); bool eof = false; CdnsBlockRead br = rd.read_block(eof);
                          for (auto& q : br.m_query_responses) if (q.time_offset) got.push_back({q.time_offset->m_secs, q.time_offset->m_ticks}); for (auto& m : br.m_malformed_messages) if (m.time_offset) got.push_back({m.time_offset->m_secs, m.time_offset->m_ticks});
                          if (got != want) out.push_back({"boundary-times|times-not-recovered", where + ": the library reader returns other record times"}); }
                    catch (std::exception& x) { out.push_back({"boundary-times|unreadable", where + ": " + x.what()}); }
                    std::string rdump, ldump; try { rdump = lib::file_dump(ref::read_file(outs.at(0))); } catch (std::exception& e) { rdump = std::string("INVALID: ") + e.what(); } ldump = lib::file_dump(lib::read_bytes(outs.at(0)));
                    if (rdump.rfind("INVALID", 0) == 0) out.push_back({"boundary-times|invalid-output", where + ": " + rdump.substr(0, 80)});
                    else if (rdump != ldump) out.push_back({"boundary-times|readers-disagree", where + ": CdnsReader and the independent reader return different blocks"});
                    R.count("blocks_validated"); }
                for (auto& v : out) R.violation("time|" + v.key, v.what, "kind=5;rate=" + std::to_string(t.rate)); R.outcome(std::string("kind5") + (out.empty() ? ":ok" : ":viol")); return; }
            if (t.kind == 3) { // one CdnsBlock object: filled and written under parameters A (rate r1), cleared, given parameters B (rate r2) under the SAME index 0, filled and written to a second file
                uint64_t r1 = RR[t.rate / 4], r2 = RR[t.rate % 4]; BlockParameters bpA, bpB; bpA.storage_parameters.ticks_per_second = r1; bpB.storage_parameters.ticks_per_second = r2; bpA.storage_parameters.max_block_items = bpB.storage_parameters.max_block_items = 100000;
                std::vector<BlockParameters> va = {bpA}, vb = {bpB}; FilePreamble fa(va), fb(vb); std::vector<std::string> oa, ob; const Pools PA = make_pools(r1), PB = make_pools(r2);
                CdnsBlock b(bpA, 0); model::Exporter MB({model::from(bpB)});
                { CdnsExporter ea(fa, MemSink{&oa}, CborOutputCompression::NO_COMPRESSION); b.add_question_response_record(PA.qr[2]); b.add_question_response_record(PA.qr[0]); b.add_malformed_message(PA.mm[0]); ea.write_block(b); }
                b.clear(); bool ok = b.set_block_parameters(bpB, 0); if (!ok) out.push_back({"block-reuse|set-parameters-refused", "set_block_parameters on a cleared block returned false"});
                { CdnsExporter eb(fb, MemSink{&ob}, CborOutputCompression::NO_COMPRESSION); for (int q : {1, 2, 0, 4}) { b.add_question_response_record(PB.qr[q]); MB.buffer_qr(PB.qr[q], nullptr); } b.add_malformed_message(PB.mm[0]); MB.buffer_mm(PB.mm[0], nullptr); b.add_malformed_message(PB.mm[3]); MB.buffer_mm(PB.mm[3], nullptr); eb.write_block(b); MB.write_block(); }
                // a copy of that block, and a copy assigned onto a block that served rate A, written to further files: the same content, the same times
                std::vector<std::string> oc, od;
                { CdnsExporter ec(fb, MemSink{&oc}, CborOutputCompression::NO_COMPRESSION); CdnsBlock c(b); ec.write_block(c); }
                { CdnsExporter ed(fb, MemSink{&od}, CborOutputCompression::NO_COMPRESSION); CdnsBlock d(bpA, 0); d.add_question_response_record(PA.qr[2]); d = b; ed.write_block(d); }
                if (oc.at(0) != ob.at(0)) out.push_back({"block-reuse|copy-written", "a copy of the block (rate " + std::to_string(r2) + ") serialises differently from the block itself"});
                if (od.at(0) != ob.at(0)) out.push_back({"block-reuse|assigned-copy-written", "the block (rate " + std::to_string(r2) + ") assigned onto a block that served rate " + std::to_string(r1) + " serialises differently from the block itself"});
                std::string expect = "P{" + MB.outs[0].preamble + "}"; for (auto& bl : MB.outs[0].blocks) expect += "|B{" + bl.dump() + "}"; expect += "|eof";
                std::string rd; try { rd = lib::file_dump(ref::read_file(ob.at(0))); } catch (std::exception& e) { rd = std::string("INVALID: ") + e.what(); } std::string ld = lib::file_dump(lib::read_bytes(ob.at(0)));
                if (rd != expect) out.push_back({"block-reuse|independent-reader", "block object re-used under rate " + std::to_string(r2) + " after rate " + std::to_string(r1) + ": file differs from what was added: " + rd.substr(0, 60)});
                if (ld != expect) out.push_back({"block-reuse|library-reader", "block object re-used under rate " + std::to_string(r2) + " after rate " + std::to_string(r1) + ": CdnsReader returns other records / times than were added"});
                R.count("traces"); R.count("nontrivial"); R.count("blocks_validated");
                for (auto& v : out) R.violation("time|" + v.key, v.what, "kind=3;rate=" + std::to_string(t.rate)); R.outcome(std::string("kind3") + (out.empty() ? ":ok" : ":viol")); return; }
            std::vector<std::pair<uint64_t, uint64_t>> pts;
            if (t.kind == 0) { for (uint64_t s = 0; s <= 3; s++) for (uint64_t k = 0; k < std::min<uint64_t>(t.rate, 10); k++) pts.push_back({s, k}); }
            else if (t.kind == 1) { uint64_t M = smax(t.rate); for (uint64_t s : {(uint64_t)0, (uint64_t)1, (uint64_t)0x7fffffff, (uint64_t)0x80000000ULL, (uint64_t)0xffffffffULL, (uint64_t)0x100000000ULL, M - 1, M}) for (uint64_t k : {(uint64_t)0, (uint64_t)1, t.rate - 1}) pts.push_back({s, k}); }
            if (t.kind <= 1) {
                for (auto& p : pts) for (auto& q : pts) { check_time(t.rate, p.first, p.second, q.first, q.second, out); n++; }
                std::vector<int64_t> offs = {INT64_MIN, INT64_MIN + 1, -(int64_t)0x100000000LL, -(int64_t)t.rate - 1, -(int64_t)t.rate, -1, 0, 1, (int64_t)t.rate - 1, (int64_t)t.rate, (int64_t)0x100000000LL, INT64_MAX};
                for (auto& p : pts) for (int64_t o : offs) { check_add(t.rate, p.first, p.second, o, out); n++; }
                // un-normalised reference operands are legal inputs for offsets too
                for (auto& p : pts) { check_time(t.rate, p.first, p.second + t.rate, 0, 0, out); n++; }
            } else {
                for (uint64_t s : {(uint64_t)0, (uint64_t)5, (uint64_t)0xffffffffULL}) for (int64_t o : {INT64_MIN, (int64_t)-1, (int64_t)0, (int64_t)1, INT64_MAX}) { check_add(0, s, 0, o, out); n++;
                    Timestamp x(s, 0), y(0, 0); bool threw = false; try { x.get_time_offset(y, 0); } catch (std::exception&) { threw = true; } if (!threw) out.push_back({"rate0-offset-accepted", "get_time_offset at rate 0 returned a value"}); }
            }
            R.count("traces", n); R.count("nontrivial", n);
            for (auto& v : out) R.violation("time|" + v.key, v.what, "kind=" + std::to_string(t.kind) + ";rate=" + std::to_string(t.rate));
            R.outcome("kind" + std::to_string(t.kind) + (out.empty() ? ":ok" : ":viol"));
            R.sample("kind=" + std::to_string(t.kind) + ";rate=" + std::to_string(t.rate) + ";points=" + std::to_string(pts.size()));
        };
        if (!a.replay.empty()) { std::string s = slurp(a.replay); int k; unsigned long long r; if (sscanf(s.c_str(), "kind=%d;rate=%llu", &k, &r) != 2) return done(2);
            Pool rp(1, 60); rp.run(1, [&](uint64_t, Result& R) { run_task({k, (uint64_t)r}, R); }, [&](uint64_t, const std::string& d, Result& R) { R.violation("time|" + crash_key(d), d.substr(0, 1500), s); }, total); return done(total.viol.empty() ? 0 : 1); }
        Pool pool(a.jobs, 120);
        pool.run(tasks.size(), [&](uint64_t ti, Result& R) { set_note("kind=" + std::to_string(tasks[ti].kind) + ";rate=" + std::to_string(tasks[ti].rate)); run_task(tasks[ti], R); },
                 [&](uint64_t, const std::string& d, Result& R) { R.violation("time|" + crash_key(d), d.substr(0, 1500), pool.last_note); }, total);
        total.n["evaluations"] = total.n["traces"];
        return done(0);
    }
    if (a.mode == "values") {
        // C01 (b): one record per file, every field x boundary value, alone and inside the full record; (c) long traces
        typedef std::function<void(GenericQueryResponse&, int)> Set;
        struct Field { const char* name; int nvar; Set set; std::function<void(GenericQueryResponse&)> clear; };
        static const uint64_t U8[] = {0, 1, 23, 24, 255}, U16[] = {0, 23, 24, 255, 256, 65535}, U64[] = {0, 23, 24, 255, 256, 65535, 65536, 0xffffffffULL, 0x100000000ULL, 0x7fffffffffffffffULL, 0x8000000000000000ULL, 0xffffffffffffffffULL};
        static const int64_t I64[] = {INT64_MIN, INT64_MIN + 1, -4294967297LL, -4294967296LL, -65537, -65536, -257, -256, -25, -24, -1, 0, 1, 23, 24, 255, 256, 65535, 65536, 4294967295LL, 4294967296LL, INT64_MAX};
        static const size_t SL[] = {0, 1, 23, 24, 255, 256, 2047, 2048, 2049, 65534, 65535, 65536, 140000};
        auto str = [](int v) { size_t n = SL[v % 13]; int k = v / 13; std::string s(n, k == 0 ? '\0' : k == 1 ? '\xff' : 'a'); if (k == 2) for (size_t i = 0; i < n; i++) s[i] = (char)(i * 7 + 3); return s; };
        std::vector<Field> F;
#define FU(fld, arr, T) F.push_back({#fld, (int)(sizeof(arr) / sizeof(arr[0])), [](GenericQueryResponse& g, int v) { g.fld = (T)arr[v]; }, [](GenericQueryResponse& g) { g.fld = boost::none; }});
#define FS(fld) F.push_back({#fld, 39, [str](GenericQueryResponse& g, int v) { g.fld = str(v); }, [](GenericQueryResponse& g) { g.fld = boost::none; }});
        F.push_back({"ts", 8, [](GenericQueryResponse& g, int v) { static const uint64_t S[] = {0, 1, 0x7fffffff, 0x80000000ULL, 0xffffffffULL, 0x100000000ULL, 9223372036853ULL, 9223372036854ULL}; g.ts = Timestamp(S[v], v == 7 ? 775806 : (v & 1) ? 999999 : 0); }, [](GenericQueryResponse& g) { g.ts = boost::none; }});
        FS(client_ip) FU(client_port, U16, uint16_t) FU(transaction_id, U16, uint16_t) FS(server_ip) FU(server_port, U16, uint16_t) FU(qr_transport_flags, U8, QueryResponseTransportFlagsMask) FU(qr_type, U8, QueryResponseTypeValues)
        FU(qr_sig_flags, U8, QueryResponseFlagsMask) FU(query_opcode, U8, uint8_t) FU(qr_dns_flags, U16, DNSFlagsMask) FU(query_rcode, U16, uint16_t)
        F.push_back({"query_classtype", 4, [](GenericQueryResponse& g, int v) { ClassType c; c.type = v & 1 ? 65535 : 0; c.class_ = v & 2 ? 65535 : 0; g.query_classtype = c; }, [](GenericQueryResponse& g) { g.query_classtype = boost::none; }});
        FU(query_qdcount, U16, uint16_t) FU(query_ancount, U16, uint16_t) FU(query_nscount, U16, uint16_t) FU(query_arcount, U16, uint16_t) FU(query_edns_version, U8, uint8_t) FU(query_udp_size, U16, uint16_t) FS(query_opt_rdata) FU(response_rcode, U16, uint16_t)
        FU(client_hoplimit, U8, uint8_t) FU(response_delay, I64, int64_t) FS(query_name) FU(query_size, U64, std::size_t) FU(response_size, U64, std::size_t) FS(bailiwick) FU(processing_flags, U8, ResponseProcessingFlagsMask)
        FS(asn) FS(country_code) FU(round_trip_time, I64, int64_t)
#define FL(fld, q) F.push_back({#fld, 6, [str](GenericQueryResponse& g, int v) { std::vector<GenericResourceRecord> l; int n = v == 0 ? 1 : v == 1 ? 2 : v == 2 ? 40 : 1; for (int i = 0; i < n; i++) { GenericResourceRecord r = rr(v == 3 ? str(9 + 26) : std::string("\3abc\0", 5) + (i & 1 ? "x" : ""), v == 4 ? 65535 : i, v == 4 ? 65535 : 1); if (!q) { if (v != 5) r.ttl = v == 4 ? 4294967295u : (uint32_t)i; if (v & 1) r.rdata = v == 3 ? str(8) : std::string("rd"); } l.push_back(r); } g.fld = l; }, [](GenericQueryResponse& g) { g.fld = boost::none; }});
        FL(query_questions, true) FL(query_answers, false) FL(query_authority, false) FL(query_additional, false) FL(response_questions, true) FL(response_answers, false) FL(response_authority, false) FL(response_additional, false)
        struct Case { int f1, v1, f2, v2; int base; };   // base 0: empty record + field(s); base 1: full record with field(s) replaced; base 2: full record with field(s) removed
        std::vector<Case> cases;
        for (int f = 0; f < (int)F.size(); f++) { for (int v = 0; v < F[f].nvar; v++) { cases.push_back({f, v, -1, 0, 0}); cases.push_back({f, v, -1, 0, 1}); } cases.push_back({f, 0, -1, 0, 2}); }
        for (int f = 0; f < (int)F.size(); f++) for (int g2 = f + 1; g2 < (int)F.size(); g2++) { if (!T && (f + g2) % 3) continue; cases.push_back({f, 0, g2, F[g2].nvar - 1, 0}); cases.push_back({f, 0, g2, 0, 2}); if (T) cases.push_back({f, F[f].nvar - 1, g2, 0, 1}); }
        auto run_case = [&](const Case& c, Result& R) {
            GenericQueryResponse g; if (c.base) g = P.qr[0];
            if (c.base == 2) { F[c.f1].clear(g); if (c.f2 >= 0) F[c.f2].clear(g); } else { F[c.f1].set(g, c.v1); if (c.f2 >= 0) F[c.f2].set(g, c.v2); }
            std::string rep = "f1=" + std::to_string(c.f1) + ";v1=" + std::to_string(c.v1) + ";f2=" + std::to_string(c.f2) + ";v2=" + std::to_string(c.v2) + ";base=" + std::to_string(c.base); set_note(rep);
            BlockParameters bp; std::vector<BlockParameters> bps = {bp}; FilePreamble fp(bps); std::vector<std::string> outs;
            { CdnsExporter e(fp, MemSink{&outs}, CborOutputCompression::NO_COMPRESSION); e.buffer_qr(g); e.buffer_qr(P.qr[1]); e.write_block(); }
            GenericQueryResponse ex; model::Hints h; model::filter(g, h, ex);
            std::string want = lib::dump(ex); std::string fname = std::string(F[c.f1].name) + (c.f2 >= 0 ? std::string("+") + F[c.f2].name : "");
            R.count("traces"); R.count("nontrivial");
            try { ref::RFile rf = ref::read_file(outs.at(0)); std::string got = rf.blocks.at(0).qrs.at(0); if (got != want) { size_t p = 0; while (p < got.size() && p < want.size() && got[p] == want[p]) p++; R.violation(std::string("values|independent-reader|") + F[c.f1].name, fname + ": file content differs from what was buffered at " + std::to_string(p) + ": ..." + got.substr(p > 20 ? p - 20 : 0, 70) + " vs ..." + want.substr(p > 20 ? p - 20 : 0, 70), rep); } }
            catch (std::exception& e) { R.violation(std::string("values|invalid-output|") + F[c.f1].name, fname + ": " + e.what(), rep); }
            try { std::istringstream is(outs.at(0)); CdnsReader rd(is); bool eof; CdnsBlockRead b = rd.read_block(eof); bool end; std::string got = lib::dump(b.read_generic_qr(end)); if (got != want) { size_t p = 0; while (p < got.size() && p < want.size() && got[p] == want[p]) p++; R.violation(std::string("values|library-reader|") + F[c.f1].name, fname + ": read back differs at " + std::to_string(p) + ": ..." + got.substr(p > 20 ? p - 20 : 0, 70) + " vs ..." + want.substr(p > 20 ? p - 20 : 0, 70), rep); } }
            catch (std::exception& e) { R.violation(std::string("values|library-reader-throws|") + F[c.f1].name, fname + ": " + e.what(), rep); }
            R.outcome(std::string(F[c.f1].name) + ":base" + std::to_string(c.base));
        };
        auto long_trace = [&](int kind, Result& R) {
            std::string rep = "long=" + std::to_string(kind); set_note(rep);
            BlockParameters bp; bp.storage_parameters.max_block_items = (kind == 0 || kind == 4) ? 100000 : 3; std::vector<BlockParameters> bps = {bp}; FilePreamble fp(bps); std::vector<std::string> outs; model::Exporter M({model::from(bp)});
            int N = kind == 0 ? 70000 : kind == 1 ? 600 : 0;   // kind 0: one block whose tables outgrow 16-bit indices (70000 distinct addresses / names / signatures) and an address event counted 70000 times
            if (kind == 3) { // 300 block-parameter sets (indices beyond 8 bits); blocks written under sets 0, 255, 256, 299
                std::vector<BlockParameters> bs; for (int i = 0; i < 300; i++) { BlockParameters b; b.storage_parameters.max_block_items = 1000 + i; b.storage_parameters.ticks_per_second = 1000 + i; bs.push_back(b); }
                FilePreamble fpn(bs); std::vector<model::Params> mp; for (auto& b : bs) mp.push_back(model::from(b)); model::Exporter Mn(mp); std::vector<std::string> on;
                { CdnsExporter e(fpn, MemSink{&on}, CborOutputCompression::NO_COMPRESSION);
                  for (unsigned set : {0u, 255u, 256u, 299u, 0u}) { Pools Pn = make_pools(1000 + Mn.cur.bpi); e.buffer_qr(Pn.qr[0]); Mn.buffer_qr(Pn.qr[0], nullptr); e.buffer_mm(Pn.mm[0]); Mn.buffer_mm(Pn.mm[0], nullptr);
                      bool a1 = e.set_active_block_parameters(set), a2 = Mn.set_active(set); if (a1 != a2) R.violation("values|long-trace|set-active", "set_active_block_parameters(" + std::to_string(set) + ") returned " + std::to_string(a1), rep); e.write_block(); Mn.write_block(); }
                  if (e.set_active_block_parameters(300)) R.violation("values|long-trace|set-active", "index 300 of 300 sets accepted", rep); }
                R.count("traces"); R.count("nontrivial");
                std::string ex = "P{" + Mn.outs[0].preamble + "}"; for (auto& b : Mn.outs[0].blocks) ex += "|B{" + b.dump() + "}"; ex += "|eof";
                std::string ld = lib::file_dump(lib::read_bytes(on.at(0))), rd; try { rd = lib::file_dump(ref::read_file(on.at(0))); } catch (std::exception& e) { rd = e.what(); }
                if (ld != ex) R.violation("values|long-trace|many-parameter-sets|library-reader", "300 parameter sets: library reader differs from what was written", rep);
                if (rd != ex) R.violation("values|long-trace|many-parameter-sets|independent-reader", "300 parameter sets: file differs from what was written: " + rd.substr(0, 80), rep);
                R.outcome("long3"); R.sample(rep + ";parameter sets=300;blocks under sets 0,255,256,299"); return; }
            if (kind == 2) { // more than 2^16 blocks in one output, a rotation exactly at a multiple of 2^16 blocks, then more blocks (counters wider than 16 bits)
                BlockParameters b1; b1.storage_parameters.max_block_items = 1; std::vector<BlockParameters> bs = {b1}; FilePreamble fp1(bs); std::vector<std::string> o2; model::Exporter M2({model::from(b1)}); bool counters_ok = true; size_t reported = 0;
                { CdnsExporter e(fp1, MemSink{&o2}, CborOutputCompression::NO_COMPRESSION); GenericQueryResponse q = P.qr[1];
                  for (int i = 0; i < 65536 + 70000; i++) { q.transaction_id = i & 0xffff; q.client_port = (i >> 16) + 1; size_t r = e.buffer_qr(q); M2.buffer_qr(q, nullptr); if (i < 65536) reported += r;
                      if (e.get_blocks_written_count() != M2.blocks_written) counters_ok = false;
                      if (i == 65535) { reported += e.rotate_output(MemSink{&o2}, true); M2.rotate(true); } } }
                R.count("traces"); R.count("nontrivial");
                if (!counters_ok) R.violation("values|long-trace|block-counter", "get_blocks_written_count() disagrees with the number of blocks written (more than 65536 blocks per output)", rep);
                if (o2.size() != 2) { R.violation("values|long-trace|outputs", "expected 2 outputs", rep); return; }
                if (o2[0].size() != reported) R.violation("values|long-trace|byte-count", "first output has " + std::to_string(o2[0].size()) + " bytes, calls reported " + std::to_string(reported), rep);
                for (int oi = 0; oi < 2; oi++) { size_t want = oi == 0 ? 65536 : 70000; try { ref::RFile rf = ref::read_file(o2[oi]); if (rf.blocks.size() != want) R.violation("values|long-trace|block-count", "output " + std::to_string(oi) + " holds " + std::to_string(rf.blocks.size()) + " blocks, expected " + std::to_string(want), rep);
                        else for (size_t bi = 0; bi < rf.blocks.size(); bi += 4093) if (rf.blocks[bi].qrs.size() != 1 || rf.blocks[bi].qrs[0] != M2.outs[oi].blocks[bi].qrs[0]) { R.violation("values|long-trace|content", "block " + std::to_string(bi) + " of output " + std::to_string(oi) + " differs", rep); break; } }
                    catch (std::exception& e) { R.violation("values|long-trace|invalid-output", "output " + std::to_string(oi) + " (" + std::to_string(want) + " blocks) is not a complete valid file: " + e.what(), rep); } }
                R.outcome("long2"); R.sample(rep + ";blocks=65536+70000;bytes=" + std::to_string(o2[0].size()) + "+" + std::to_string(o2[1].size())); return; }
            { CdnsExporter e(fp, MemSink{&outs}, CborOutputCompression::NO_COMPRESSION);
              for (int i = 0; i < N; i++) { GenericQueryResponse g = P.qr[i % 5]; g.client_ip = std::string("\x0a", 1) + std::string(1, (char)(i >> 16)) + std::string(1, (char)(i >> 8)) + std::string(1, (char)i); g.query_name = std::string("\5label", 6) + std::to_string(i * 7919); g.transaction_id = i & 0xffff; g.ts = Timestamp(1600000000 + i / 7, ((uint64_t)i * 142857) % 1000000);
                  if (kind == 0) { g.server_port = i & 0xffff; g.query_udp_size = (i >> 16) + 512; if (g.response_answers) (*g.response_answers)[0].ttl = (uint32_t)i; }
                  e.buffer_qr(g); M.buffer_qr(g, nullptr); if (kind == 0) { e.buffer_aec(P.aec[0]); M.buffer_aec(P.aec[0], nullptr); } if (i % 11 == 0) { e.buffer_aec(P.aec[i % 3]); M.buffer_aec(P.aec[i % 3], nullptr); } if (i % 13 == 0) { GenericMalformedMessage m = P.mm[0]; m.client_port = i & 0xffff; e.buffer_mm(m); M.buffer_mm(m, nullptr); } }
              if (kind == 4) { // list lengths and string lengths around 2^8 and 2^16: RR lists of 255/256/300/70000 records, names / rdata / payloads of 255..70000 bytes
                  for (size_t n : {(size_t)255, (size_t)256, (size_t)300, (size_t)70000}) { GenericQueryResponse g = P.qr[3]; g.client_port = (uint16_t)n; std::vector<GenericResourceRecord> l, ql;
                      for (size_t i = 0; i < n; i++) { l.push_back(rr(std::string("\3rrn", 4) + std::to_string(i % 7), (uint16_t)(i % 5), 1, (uint32_t)i, i % 3 ? boost::optional<std::string>(std::string("rd") + std::to_string(i % 11)) : boost::none)); if (i < 300) ql.push_back(rr(std::string("\2qn", 3) + std::to_string(i), (uint16_t)i, 1)); }
                      g.response_answers = l; g.query_questions = ql; if (n == 300) g.response_additional = l; e.buffer_qr(g); M.buffer_qr(g, nullptr); }
                  for (size_t n : {(size_t)255, (size_t)256, (size_t)65535, (size_t)65536, (size_t)70000}) { GenericQueryResponse g = P.qr[1]; g.client_port = (uint16_t)(n & 0xffff); std::string big(n, 0); for (size_t i = 0; i < n; i++) big[i] = (char)(i * 131 + n);
                      g.query_name = big; g.query_opt_rdata = big + "o"; g.asn = std::string(n, 'A'); g.response_answers = std::vector<GenericResourceRecord>{rr(big + "n", 1, 1, 1u, big + "r")}; e.buffer_qr(g); M.buffer_qr(g, nullptr);
                      GenericMalformedMessage m = P.mm[0]; m.mm_payload = big + "p"; m.client_port = (uint16_t)(n & 0xffff); e.buffer_mm(m); M.buffer_mm(m, nullptr); } }
              e.write_block(); M.write_block(); }
            std::string expect = "P{" + M.outs[0].preamble + "}"; for (auto& b : M.outs[0].blocks) expect += "|B{" + b.dump() + "}"; expect += "|eof";
            R.count("traces"); R.count("nontrivial");
            std::string ld = lib::file_dump(lib::read_bytes(outs.at(0))), rd; try { rd = lib::file_dump(ref::read_file(outs.at(0))); } catch (std::exception& e) { rd = e.what(); }
            if (ld != expect) R.violation("values|long-trace|library-reader", "long trace " + std::to_string(kind) + " (" + std::to_string(outs[0].size()) + " bytes): library reader differs from what was buffered", rep);
            if (rd != expect) R.violation("values|long-trace|independent-reader", "long trace " + std::to_string(kind) + ": independent reader differs from what was buffered: " + rd.substr(0, 100), rep);
            R.outcome("long" + std::to_string(kind)); R.sample(rep + ";records=" + std::to_string(N) + ";bytes=" + std::to_string(outs[0].size()) + ";blocks=" + std::to_string(M.outs[0].blocks.size()));
        };
        if (!a.replay.empty()) { std::string s = slurp(a.replay); Case c; int lk; Pool rp(1, 120);
            rp.run(1, [&](uint64_t, Result& R) { if (sscanf(s.c_str(), "long=%d", &lk) == 1) long_trace(lk, R); else if (sscanf(s.c_str(), "f1=%d;v1=%d;f2=%d;v2=%d;base=%d", &c.f1, &c.v1, &c.f2, &c.v2, &c.base) == 5) run_case(c, R); },
                   [&](uint64_t, const std::string& d, Result& R) { R.violation("values|" + crash_key(d), d.substr(0, 1500), s); }, total); return done(total.viol.empty() ? 0 : 1); }
        uint64_t chunk = 16, ntasks = (cases.size() + chunk - 1) / chunk + 5;
        Pool pool(a.jobs, 300);
        pool.run(ntasks, [&](uint64_t ti, Result& R) {
            if (a.expired()) { R.deadline_hit = true; return; }
            if (ti >= ntasks - 5) { long_trace((int)(ti - (ntasks - 5)), R); return; }
            for (uint64_t i = ti * chunk; i < std::min<uint64_t>(cases.size(), (ti + 1) * chunk); i++) run_case(cases[i], R);
            if (ti % 61 == 0) R.sample(std::string("field ") + F[cases[ti * chunk].f1].name + " variant " + std::to_string(cases[ti * chunk].v1) + " base " + std::to_string(cases[ti * chunk].base));
        }, [&](uint64_t, const std::string& d, Result& R) { R.violation("values|" + crash_key(d), d.substr(0, 1500), pool.last_note); }, total);
        total.n["evaluations"] = total.n["traces"];
        return done(0);
    }
    if (a.mode == "align") {
        // every alignment of the output stream relative to the encoder's 2 KiB staging buffer: a padding string of every length 0..2100
        // shifts (1) a record stream with 64-bit values and (2) a preamble with text members across every buffer position
        auto nonperiodic = [](size_t n, unsigned salt) { std::string x(n, 0); uint32_t v = 2463534242u + salt; for (size_t i = 0; i < n; i++) { v ^= v << 13; v ^= v >> 17; v ^= v << 5; x[i] = (char)('a' + v % 26); } return x; };
        auto run_pad = [&](int kind, size_t pad, Result& R) {
            std::string rep = "kind=" + std::to_string(kind) + ";pad=" + std::to_string(pad); set_note(rep);
            BlockParameters bp; bp.storage_parameters.max_block_items = 100000;
            if (kind == 1) { CollectionParameters c; c.filter = nonperiodic(pad, 1); c.host_id = std::string("probe-07.anycast-fra.example.net"); c.generator_id = nonperiodic(40, 2); c.interfaces = {nonperiodic(17, 3), nonperiodic(33, 4)}; c.server_address = {nonperiodic(16, 5)}; bp.collection_parameters = c;
                bp.storage_parameters.sampling_method = nonperiodic(29, 6); bp.storage_parameters.anonymization_method = nonperiodic(31, 7); bp.storage_parameters.max_block_items = 0xffffffffffffULL; bp.storage_parameters.ticks_per_second = 0x100000000ULL; }
            std::vector<BlockParameters> bps = {bp}; FilePreamble fp(bps); std::string before = lib::dump(fp);
            model::Exporter M({model::from(bp)}); std::vector<std::string> outs; size_t reported = 0;
            { CdnsExporter e(fp, MemSink{&outs}, CborOutputCompression::NO_COMPRESSION);
              GenericQueryResponse q1 = P.qr[1]; q1.asn = kind == 0 ? nonperiodic(pad, 8) : std::string("x"); q1.ts = Timestamp(1000, 0);
              GenericQueryResponse q2 = P.qr[4]; q2.ts = Timestamp(6000, 1); q2.query_size = (std::size_t)1 << 40; q2.response_size = (std::size_t)UINT64_MAX; q2.round_trip_time = INT64_MIN; q2.query_name = nonperiodic(300, 9);
              GenericQueryResponse q3 = P.qr[0]; q3.ts = Timestamp(1000 + 4295, 0);   // offset just above 2^32 ticks at the default rate
              for (auto* q : {&q1, &q2, &q3}) { reported += e.buffer_qr(*q); M.buffer_qr(*q, nullptr); }
              reported += e.buffer_aec(P.aec[1]); M.buffer_aec(P.aec[1], nullptr); reported += e.buffer_mm(P.mm[0]); M.buffer_mm(P.mm[0], nullptr);
              reported += e.write_block(); M.write_block(); }
            if (kind == 2) { // the same content, but the output is closed by a rotation (and a second output follows): every residue of the output size mod 2048
                outs.clear(); model::Exporter M2({model::from(bp)}); size_t rep2 = 0;
                { CdnsExporter e(fp, MemSink{&outs}, CborOutputCompression::NO_COMPRESSION); GenericQueryResponse q1 = P.qr[1]; q1.asn = nonperiodic(pad, 8); rep2 += e.buffer_qr(q1); M2.buffer_qr(q1, nullptr);
                  rep2 += e.rotate_output(MemSink{&outs}, true); M2.rotate(true); e.buffer_mm(P.mm[1]); M2.buffer_mm(P.mm[1], nullptr); e.write_block(); M2.write_block(); }
                R.count("traces"); R.count("nontrivial");
                for (size_t oi = 0; oi < 2; oi++) { std::string ex2 = "P{" + M2.outs[oi].preamble + "}"; for (auto& b : M2.outs[oi].blocks) ex2 += "|B{" + b.dump() + "}"; ex2 += "|eof"; std::string got; try { got = lib::file_dump(ref::read_file(outs.at(oi))); } catch (std::exception& e) { got = std::string("INVALID: ") + e.what(); }
                    if (got != ex2) R.violation(std::string("align|rotation|") + (got.rfind("INVALID", 0) == 0 ? "incomplete-output" : "content"), "padding " + std::to_string(pad) + ": output " + std::to_string(oi) + " (" + std::to_string(outs[oi].size()) + " bytes) closed by " + (oi ? "destruction" : "rotation") + " is not the complete expected file: " + got.substr(0, 100), rep); }
                if (outs.at(0).size() != rep2) R.violation("align|rotation|byte-count", "padding " + std::to_string(pad) + ": reported " + std::to_string(rep2) + " bytes, rotated output has " + std::to_string(outs[0].size()), rep);
                R.outcome("kind2:fill" + std::to_string(outs[0].size() % 2048 == 0 ? 0 : 1)); return; }
            reported += 1; const std::string& bytes = outs.at(0); R.count("traces"); R.count("nontrivial");
            std::string expect = "P{" + M.outs[0].preamble + "}"; for (auto& b : M.outs[0].blocks) expect += "|B{" + b.dump() + "}"; expect += "|eof";
            if (bytes.size() != reported) R.violation("align|byte-count", "padding " + std::to_string(pad) + ": calls reported " + std::to_string(reported) + " bytes, output has " + std::to_string(bytes.size()), rep);
            std::string rd; try { rd = lib::file_dump(ref::read_file(bytes)); } catch (std::exception& e) { rd = std::string("INVALID: ") + e.what(); }
            std::string ld = lib::file_dump(lib::read_bytes(bytes));
            auto where = [&](const std::string& g) { size_t p = 0; while (p < g.size() && p < expect.size() && g[p] == expect[p]) p++; size_t eq = expect.rfind('=', p), sc = eq == std::string::npos ? eq : expect.find_last_of(";{[|", eq); return (eq != std::string::npos && sc != std::string::npos && eq > sc) ? expect.substr(sc + 1, eq - sc - 1) : std::string("?"); };
            if (rd != expect) R.violation(std::string("align|") + (rd.rfind("INVALID", 0) == 0 ? "invalid-output" : "independent-reader|" + where(rd)), "padding " + std::to_string(pad) + (kind ? " (preamble text)" : " (record text)") + ": file differs from what was written: " + (rd.rfind("INVALID", 0) == 0 ? rd.substr(0, 120) : "member " + where(rd)), rep);
            if (ld != expect) R.violation("align|library-reader|" + where(ld), "padding " + std::to_string(pad) + ": CdnsReader returns something else than was written (member " + where(ld) + ")", rep);
            R.outcome("kind" + std::to_string(kind) + ":fill" + std::to_string(bytes.size() / 2048));
        };
        // --named 1 (C15): the same sweep with NAMED outputs (plain and gzip), one closed by a rotation and one by destruction: whatever residue the output size has
        // mod the staging buffer, what appears under the final name is a complete valid file (closing break included) and no '.part' file stays behind
        bool named = a.kv.count("named") > 0; std::string ndir; if (named || !a.replay.empty()) ndir = scratch_dir();
        auto gunzip = [](const std::string& z, std::string& out) { out.clear(); if (z.empty()) return false; z_stream zs; memset(&zs, 0, sizeof zs); if (inflateInit2(&zs, 31) != Z_OK) return false; zs.next_in = (Bytef*)z.data(); zs.avail_in = z.size(); char buf[65536]; int r;
            do { zs.next_out = (Bytef*)buf; zs.avail_out = sizeof buf; r = inflate(&zs, Z_NO_FLUSH); if (r != Z_OK && r != Z_STREAM_END) { inflateEnd(&zs); return false; } out.append(buf, sizeof buf - zs.avail_out); } while (r != Z_STREAM_END && (zs.avail_in > 0 || zs.avail_out == 0));
            inflateEnd(&zs); return r == Z_STREAM_END; };
        auto run_named = [&](int comp, size_t pad, Result& R) {
            std::string rep = "kind=" + std::to_string(3 + comp) + ";pad=" + std::to_string(pad); set_note(rep);
            std::string d = ndir + "/n" + std::to_string(getpid()); mkdir(d.c_str(), 0700); std::string ext = comp ? ".gz" : "";
            BlockParameters bp; bp.storage_parameters.max_block_items = 100000; std::vector<BlockParameters> bps = {bp}; FilePreamble fp(bps); model::Exporter M2({model::from(bp)});
            { CdnsExporter e(fp, d + "/a", comp ? CborOutputCompression::GZIP : CborOutputCompression::NO_COMPRESSION); GenericQueryResponse q1 = P.qr[1]; q1.asn = nonperiodic(pad, 8); e.buffer_qr(q1); M2.buffer_qr(q1, nullptr);
              e.rotate_output(d + "/b", true); M2.rotate(true); GenericMalformedMessage m = P.mm[1]; e.buffer_mm(m); M2.buffer_mm(m, nullptr); GenericQueryResponse q2 = P.qr[1]; q2.asn = nonperiodic(pad, 9); e.buffer_qr(q2); M2.buffer_qr(q2, nullptr); e.write_block(); M2.write_block(); }
            R.count("traces"); R.count("nontrivial"); std::string cn = comp ? "gzip" : "plain";
            const char* names[2] = {"a", "b"};
            for (size_t oi = 0; oi < 2; oi++) { std::string path = d + "/" + names[oi] + ext, raw = slurp(path), plain; bool ok = comp ? gunzip(raw, plain) : (plain = raw, true);
                std::string ex2 = "P{" + M2.outs[oi].preamble + "}"; for (auto& b : M2.outs[oi].blocks) ex2 += "|B{" + b.dump() + "}"; ex2 += "|eof"; std::string got;
                if (!ok) got = raw.empty() ? "INVALID: no file under the final name" : "INVALID: compressed stream incomplete"; else try { got = lib::file_dump(ref::read_file(plain)); } catch (std::exception& e) { got = std::string("INVALID: ") + e.what(); }
                if (got != ex2) R.violation("align|named|" + cn + "|" + (got.rfind("INVALID", 0) == 0 ? "incomplete-output-under-final-name" : "content"), "padding " + std::to_string(pad) + ": output " + names[oi] + ext + " (" + std::to_string(plain.size()) + " bytes uncompressed) closed by " + (oi ? "destruction" : "rotation") + ": " + got.substr(0, 90), rep);
                unlink(path.c_str()); }
            if (DIR* dd = opendir(d.c_str())) { while (dirent* de = readdir(dd)) { std::string n = de->d_name; if (n == "." || n == "..") continue; R.violation("align|named|" + cn + "|leftover-file", "padding " + std::to_string(pad) + ": " + n + " left in the output directory", rep); unlink((d + "/" + n).c_str()); } closedir(dd); }
            rmdir(d.c_str()); R.outcome("named-" + cn);
        };
        if (!a.replay.empty()) { std::string s = slurp(a.replay); int k; unsigned long pd; if (sscanf(s.c_str(), "kind=%d;pad=%lu", &k, &pd) != 2) return done(2);
            Pool rp(1, 60); rp.run(1, [&](uint64_t, Result& R) { if (k >= 3) run_named(k - 3, pd, R); else run_pad(k, pd, R); }, [&](uint64_t, const std::string& d, Result& R) { R.violation("align|" + crash_key(d), d.substr(0, 1500), s); }, total); rm_rf(ndir); return done(total.viol.empty() ? 0 : 1); }
        size_t NP = T ? 4200 : 2101; Pool pool(a.jobs, 120);
        if (named) { pool.run(2 * ((NP + 31) / 32), [&](uint64_t ti, Result& R) { int comp = ti % 2; size_t lo = (ti / 2) * 32; for (size_t pad = lo; pad < std::min(NP, lo + 32); pad++) run_named(comp, pad, R); if (ti % 23 == 0) R.sample("named kind=" + std::to_string(3 + comp) + ";pad=" + std::to_string(lo) + ".." + std::to_string(lo + 31)); },
                 [&](uint64_t, const std::string& d, Result& R) { R.violation("align|" + crash_key(d), d.substr(0, 1500), pool.last_note); }, total);
            total.n["evaluations"] = total.n["traces"]; rm_rf(ndir); return done(0); }
        // preambles longer than the READER's window (65535 bytes): the text member slides every later member of the preamble (integers of every width, strings, arrays) across the first refill
        { const size_t LO = 64800, HI = 65600; pool.run((HI - LO + 31) / 32, [&](uint64_t ti, Result& R) { for (size_t pad = LO + ti * 32; pad < std::min(HI, LO + (ti + 1) * 32); pad++) run_pad(1, pad, R); if (ti % 5 == 0) R.sample("kind=1;pad=" + std::to_string(LO + ti * 32) + ".. (reader window)"); },
                 [&](uint64_t, const std::string& d, Result& R) { R.violation("align|" + crash_key(d), d.substr(0, 1500), pool.last_note); }, total); }
        pool.run(3 * ((NP + 31) / 32) + 1, [&](uint64_t ti, Result& R) { if (ti == 3 * ((NP + 31) / 32)) { for (size_t pad : {(size_t)4095, (size_t)4096, (size_t)4097, (size_t)6000, (size_t)8192, (size_t)20000, (size_t)70000}) for (int k = 0; k < 3; k++) run_pad(k, pad, R); return; }
            int kind = ti % 3; size_t lo = (ti / 3) * 32; for (size_t pad = lo; pad < std::min(NP, lo + 32); pad++) run_pad(kind, pad, R); if (ti % 23 == 0) R.sample("kind=" + std::to_string(kind) + ";pad=" + std::to_string(lo) + ".." + std::to_string(lo + 31)); },
                 [&](uint64_t, const std::string& d, Result& R) { R.violation("align|" + crash_key(d), d.substr(0, 1500), pool.last_note); }, total);
        total.n["evaluations"] = total.n["traces"];
        return done(0);
    }
    fprintf(stderr, "unknown mode\n"); return done(2);
}
