// Harness utilities: result accumulation, JSON output, forked worker pool with crash attribution.
#pragma once
#include <cstdint>
#include <cstdio>
#include <cstdlib>
#include <cstring>
#include <string>
#include <vector>
#include <map>
#include <set>
#include <functional>
#include <fstream>
#include <sstream>
#include <chrono>
#include <unistd.h>
#include <signal.h>
#include <sys/mman.h>
#include <sys/wait.h>
#include <sys/stat.h>
#include <fcntl.h>

namespace vh {

inline double now_s() { using namespace std::chrono; return duration<double>(steady_clock::now().time_since_epoch()).count(); }

inline std::string jesc(const std::string& s) {
    std::string o; o.reserve(s.size() + 2);
    for (unsigned char c : s) {
        switch (c) {
        case '"': o += "\\\""; break; case '\\': o += "\\\\"; break; case '\n': o += "\\n"; break;
        case '\t': o += "\\t"; break; case '\r': o += "\\r"; break;
        default: if (c < 0x20 || c >= 0x7f) { char b[8]; snprintf(b, sizeof b, "\\u%04x", c); o += b; } else o.push_back((char)c);
        }
    }
    return o;
}

struct Violation { std::string key, what, replay; };

struct Result {
    std::map<std::string, uint64_t> n;                 // counters: evaluations, states, transitions, traces, ...
    std::set<std::string> outcomes;                    // distinct outcome classes (vacuity guard), capped
    std::vector<std::string> samples;                  // a few cases written out
    std::vector<Violation> viol;                       // capped per key
    std::map<std::string, uint64_t> viol_count;        // per key
    std::vector<std::string> notes;
    bool deadline_hit = false;
    size_t max_outcomes = 4096, max_samples = 6, max_viol_per_key = 3;

    void count(const std::string& k, uint64_t d = 1) { n[k] += d; }
    void outcome(const std::string& o) { if (outcomes.size() < max_outcomes) outcomes.insert(o); }
    void sample(const std::string& s) { if (samples.size() < max_samples) samples.push_back(s); }
    void violation(const std::string& key, const std::string& what, const std::string& replay) {
        if (viol_count[key]++ < max_viol_per_key) viol.push_back({key, what, replay});
    }
    void merge(const Result& o) {
        for (auto& kv : o.n) n[kv.first] += kv.second;
        for (auto& x : o.outcomes) outcome(x);
        for (auto& s : o.samples) sample(s);
        for (auto& v : o.viol) { if (viol_count[v.key] < max_viol_per_key || true) { size_t have = 0; for (auto& w : viol) if (w.key == v.key) have++; if (have < max_viol_per_key) viol.push_back(v); } }
        for (auto& kv : o.viol_count) viol_count[kv.first] += kv.second;
        for (auto& s : o.notes) notes.push_back(s);
        deadline_hit |= o.deadline_hit;
    }
    // line-oriented serialisation for worker -> parent
    void save(const std::string& path) const {
        std::ofstream f(path, std::ios::binary);
        for (auto& kv : n) f << "N\t" << jesc(kv.first) << "\t" << kv.second << "\n";
        for (auto& x : outcomes) f << "O\t" << jesc(x) << "\n";
        for (auto& x : samples) f << "S\t" << jesc(x) << "\n";
        for (auto& v : viol) f << "V\t" << jesc(v.key) << "\t" << jesc(v.what) << "\t" << jesc(v.replay) << "\n";
        for (auto& kv : viol_count) f << "C\t" << jesc(kv.first) << "\t" << kv.second << "\n";
        for (auto& x : notes) f << "T\t" << jesc(x) << "\n";
        if (deadline_hit) f << "D\n";
    }
    static std::string unesc(const std::string& s) {
        std::string o; for (size_t i = 0; i < s.size(); i++) {
            if (s[i] != '\\' || i + 1 >= s.size()) { o.push_back(s[i]); continue; }
            char c = s[++i];
            if (c == 'n') o.push_back('\n'); else if (c == 't') o.push_back('\t'); else if (c == 'r') o.push_back('\r');
            else if (c == 'u' && i + 4 < s.size() + 0) { o.push_back((char)strtol(s.substr(i + 1, 4).c_str(), nullptr, 16)); i += 4; }
            else o.push_back(c);
        }
        return o;
    }
    void load(const std::string& path) {
        std::ifstream f(path, std::ios::binary); std::string line;
        while (std::getline(f, line)) {
            std::vector<std::string> p; size_t s = 0;
            for (;;) { size_t t = line.find('\t', s); if (t == std::string::npos) { p.push_back(line.substr(s)); break; } p.push_back(line.substr(s, t - s)); s = t + 1; }
            if (p[0] == "N" && p.size() >= 3) n[unesc(p[1])] += strtoull(p[2].c_str(), nullptr, 10);
            else if (p[0] == "O" && p.size() >= 2) outcome(unesc(p[1]));
            else if (p[0] == "S" && p.size() >= 2) sample(unesc(p[1]));
            else if (p[0] == "V" && p.size() >= 4) { size_t have = 0; for (auto& w : viol) if (w.key == unesc(p[1])) have++; if (have < max_viol_per_key) viol.push_back({unesc(p[1]), unesc(p[2]), unesc(p[3])}); }
            else if (p[0] == "C" && p.size() >= 3) viol_count[unesc(p[1])] += strtoull(p[2].c_str(), nullptr, 10);
            else if (p[0] == "T" && p.size() >= 2) notes.push_back(unesc(p[1]));
            else if (p[0] == "D") deadline_hit = true;
        }
    }
    std::string json() const {
        std::ostringstream o; o << "{\"counters\":{"; bool first = true;
        for (auto& kv : n) { o << (first ? "" : ",") << "\"" << jesc(kv.first) << "\":" << kv.second; first = false; }
        o << "},\"distinct_outcomes\":" << outcomes.size() << ",\"outcomes\":["; first = true; size_t k = 0;
        for (auto& x : outcomes) { if (k++ >= 40) break; o << (first ? "" : ",") << "\"" << jesc(x) << "\""; first = false; }
        o << "],\"samples\":["; first = true;
        for (auto& x : samples) { o << (first ? "" : ",") << "\"" << jesc(x) << "\""; first = false; }
        o << "],\"violations\":["; first = true;
        for (auto& v : viol) { o << (first ? "" : ",") << "{\"key\":\"" << jesc(v.key) << "\",\"what\":\"" << jesc(v.what) << "\",\"replay\":\"" << jesc(v.replay) << "\"}"; first = false; }
        o << "],\"violation_counts\":{"; first = true;
        for (auto& kv : viol_count) { o << (first ? "" : ",") << "\"" << jesc(kv.first) << "\":" << kv.second; first = false; }
        o << "},\"notes\":["; first = true;
        for (auto& x : notes) { o << (first ? "" : ",") << "\"" << jesc(x) << "\""; first = false; }
        o << "],\"deadline_hit\":" << (deadline_hit ? "true" : "false") << "}";
        return o.str();
    }
};

// ---- tolerant access to private members of the library under test ---------------------------
// PEEK(obj, expr-in-terms-of-o, fallback): evaluates expr if it compiles for obj's type, else yields fallback. A refactoring that renames or
// removes a private member therefore degrades a diagnostic / a state digest instead of breaking the harness build.
template <class F, class O, class D> auto peek_impl(F&& f, O& o, D, int) -> decltype(f(o)) { return f(o); }
template <class F, class O, class D> D peek_impl(F&&, O&, D d, long) { return d; }
#define PEEK(obj, expr, fallback) vh::peek_impl([&](auto& o) -> decltype(expr) { return expr; }, obj, fallback, 0)

// ---- command line ------------------------------------------------------------------------
struct Args {
    std::string tier = "quick", out, replay, mode; uint64_t seed = 0; int jobs = 16; double deadline_s = 840; double t0 = now_s();
    std::map<std::string, std::string> kv;
    bool thorough() const { return tier == "thorough"; }
    bool expired() const { return now_s() - t0 > deadline_s; }
    static Args parse(int argc, char** argv) {
        Args a;
        for (int i = 1; i < argc; i++) {
            std::string s = argv[i]; auto nx = [&]() { return i + 1 < argc ? std::string(argv[++i]) : std::string(); };
            if (s == "--tier") a.tier = nx(); else if (s == "--out") a.out = nx(); else if (s == "--replay") a.replay = nx();
            else if (s == "--seed") a.seed = strtoull(nx().c_str(), nullptr, 10); else if (s == "--jobs") a.jobs = atoi(nx().c_str());
            else if (s == "--deadline") a.deadline_s = atof(nx().c_str()); else if (s == "--mode") a.mode = nx();
            else if (s.rfind("--", 0) == 0) a.kv[s.substr(2)] = nx();
        }
        if (const char* e = getenv("VERIF_DEADLINE_S")) a.deadline_s = atof(e);
        if (const char* e = getenv("VERIF_JOBS")) a.jobs = atoi(e);
        if (a.jobs < 1) a.jobs = 1;
        return a;
    }
    void finish(const Result& r) const {
        std::string j = r.json();
        if (!out.empty()) { std::ofstream f(out); f << j << "\n"; } else printf("%s\n", j.c_str());
    }
};

inline std::string scratch_dir() {
    const char* e = getenv("VERIF_SCRATCH");
    std::string base = e ? e : "/dev/shm";
    std::string t = base + "/vh-XXXXXX"; std::vector<char> b(t.begin(), t.end()); b.push_back(0);
    if (!mkdtemp(b.data())) { t = "/tmp/vh-XXXXXX"; b.assign(t.begin(), t.end()); b.push_back(0); if (!mkdtemp(b.data())) { perror("mkdtemp"); exit(2); } }
    return std::string(b.data());
}
inline void rm_rf(const std::string& d) { if (d.size() > 8) { std::string c = "rm -rf '" + d + "'"; if (system(c.c_str())) {} } }
inline std::string slurp(const std::string& p) { std::ifstream f(p, std::ios::binary); std::stringstream s; s << f.rdbuf(); return s.str(); }
inline void spit(const std::string& p, const std::string& d) { std::ofstream f(p, std::ios::binary); f.write(d.data(), d.size()); }

// ---- forked pool ---------------------------------------------------------------------------
// Cases are indices [0, N). Worker w runs w, w+J, w+2J, ... . Each worker publishes the case it is
// about to run in shared memory; if it dies (signal / sanitizer abort / watchdog) the parent
// records a violation for exactly that case via on_crash and restarts the worker after it.
inline char*& worker_note() { static char* p = nullptr; return p; }
// run_case may call set_note("...") to describe the exact sub-case it is about to run (crash attribution)
inline void set_note(const std::string& s) { char* p = worker_note(); if (p) { size_t n = std::min<size_t>(s.size(), 8000); memcpy(p, s.data(), n); p[n] = 0; } }
struct Pool {
    struct Slot { volatile uint64_t cur; volatile uint64_t done; volatile uint64_t started; char note[8192]; };
    int jobs; double case_limit_s; // 0 = no watchdog
    std::string last_note;   // note of the crashed worker, valid inside on_crash
    Pool(int j, double limit = 0) : jobs(j), case_limit_s(limit) {}

    // run_case(idx, result) ; on_crash(idx, description, result) describes the crashed case.
    // Workers checkpoint their cumulative Result a few times per second; after a crash the worker
    // is restarted from its last checkpoint with the crashed case(s) skipped, so no case and no
    // count is lost.
    void run(uint64_t N, const std::function<void(uint64_t, Result&)>& run_case,
             const std::function<void(uint64_t, const std::string&, Result&)>& on_crash, Result& total,
             const std::function<bool()>& expired = nullptr) {
        if (N == 0) return;
        int J = (int)std::min<uint64_t>(jobs, N);
        Slot* slots = (Slot*)mmap(nullptr, sizeof(Slot) * J, PROT_READ | PROT_WRITE, MAP_SHARED | MAP_ANONYMOUS, -1, 0);
        volatile int* stop = (volatile int*)mmap(nullptr, 4096, PROT_READ | PROT_WRITE, MAP_SHARED | MAP_ANONYMOUS, -1, 0);
        std::string dir = scratch_dir();
        std::vector<pid_t> pid(J, -1); std::vector<uint64_t> next(J); std::vector<int> gen(J, 0);
        std::vector<std::set<uint64_t>> skip(J);
        for (int w = 0; w < J; w++) next[w] = w;
        auto rfile = [&](int w) { return dir + "/r" + std::to_string(w) + "." + std::to_string(gen[w]); };
        auto spawn = [&](int w) {
            std::string rf = rfile(w);
            std::string ef = dir + "/e" + std::to_string(w);
            fflush(stdout); fflush(stderr);
            slots[w].cur = next[w]; slots[w].done = next[w]; slots[w].note[0] = 0;
            pid_t p = fork();
            if (p < 0) { perror("fork"); exit(2); }
            if (p == 0) {
                int fd = open(ef.c_str(), O_WRONLY | O_CREAT | O_TRUNC, 0600); if (fd >= 0) { dup2(fd, 2); close(fd); }
                Result r; worker_note() = slots[w].note;
                double last = now_s();
                for (uint64_t i = next[w]; i < N; i += J) {
                    if (*stop) { r.deadline_hit = true; break; }
                    if (skip[w].count(i)) continue;
                    slots[w].cur = i;
                    if (case_limit_s > 0) alarm((unsigned)case_limit_s + 1);
                    run_case(i, r);
                    if (case_limit_s > 0) alarm(0);
                    double t = now_s();
                    if (t - last > 0.25) { r.save(rf + ".tmp"); rename((rf + ".tmp").c_str(), rf.c_str()); slots[w].done = i + J; last = t; }
                }
                r.save(rf + ".tmp"); rename((rf + ".tmp").c_str(), rf.c_str()); slots[w].done = N + J;
                _exit(0);
            }
            pid[w] = p;
        };
        for (int w = 0; w < J; w++) spawn(w);
        int live = J;
        while (live > 0) {
            int st = 0; pid_t p = waitpid(-1, &st, WNOHANG);
            if (p == 0) { if (expired && expired()) *stop = 1; usleep(2000); continue; }
            if (p < 0) break;
            int w = -1; for (int i = 0; i < J; i++) if (pid[i] == p) w = i;
            if (w < 0) continue;
            { Result r; r.load(rfile(w)); total.merge(r); }
            if (WIFEXITED(st) && WEXITSTATUS(st) == 0) { pid[w] = -1; live--; continue; }
            // abnormal: attribute to current case
            uint64_t idx = slots[w].cur;
            std::string err = slurp(dir + "/e" + std::to_string(w));
            if (err.size() > 6000) err = err.substr(0, 6000);
            std::string desc;
            if (WIFSIGNALED(st)) desc = "signal " + std::to_string(WTERMSIG(st)) + (WTERMSIG(st) == SIGALRM ? " (watchdog)" : "");
            else desc = "exit " + std::to_string(WEXITSTATUS(st));
            desc += "\n" + err;
            last_note = std::string(slots[w].note);
            on_crash(idx, desc, total);
            total.count("worker_crashes");
            skip[w].insert(idx);
            gen[w]++; next[w] = slots[w].done;   // resume after the last checkpoint
            if (next[w] < N && !*stop) spawn(w); else { pid[w] = -1; live--; }
        }
        munmap((void*)slots, sizeof(Slot) * J); munmap((void*)stop, 4096);
        rm_rf(dir);
    }
};

// first sanitizer headline + first library frame, for finding keys
inline std::string crash_key(const std::string& desc) {
    std::string kind = "crash";
    size_t p = desc.find("ERROR: AddressSanitizer: ");
    if (p != std::string::npos) { size_t e = desc.find_first_of(" \n", p + 25); kind = "asan:" + desc.substr(p + 25, e - p - 25); if (kind == "asan:requested") kind = "asan:allocation-size-too-big"; }
    else if ((p = desc.find("runtime error: ")) != std::string::npos) { size_t e = desc.find('\n', p); std::string m = desc.substr(p + 15, e - p - 15);
        // strip numbers to get a class
        std::string c; for (char ch : m) { if (isdigit((unsigned char)ch) || ch == '-') { if (c.empty() || c.back() != '#') c.push_back('#'); } else c.push_back(ch); } kind = "ubsan:" + c.substr(0, 60); }
    else if (desc.find("watchdog") != std::string::npos) kind = "timeout";
    else if (desc.rfind("signal 11", 0) == 0) kind = "sigsegv";
    else if (desc.rfind("signal 6", 0) == 0) kind = "abort";
    else if (desc.find("allocation-size-too-big") != std::string::npos) kind = "asan:allocation-size-too-big";
    // first frame mentioning CDNS:: or a tool source (stack overflow: the recursing function = most frequent frame)
    std::string frame; size_t q = 0;
    if (kind == "asan:stack-overflow") {
        std::map<std::string, int> freq; size_t z = 0;
        while ((z = desc.find(" in ", z)) != std::string::npos) { size_t e = desc.find_first_of("\n", z); std::string l = desc.substr(z + 4, e - z - 4); size_t sp = l.find_first_of(" ("); l = l.substr(0, sp); if (l.find("CDNS::") != std::string::npos) freq[l]++; z += 4; }
        int best = 0; for (auto& kv : freq) if (kv.second > best) { best = kv.second; frame = kv.first; }
        if (!frame.empty()) return kind + "|" + frame;
    }
    while ((q = desc.find(" in ", q)) != std::string::npos) {
        size_t e = desc.find_first_of("\n", q); std::string l = desc.substr(q + 4, e - q - 4);
        if (l.find("CDNS::") != std::string::npos || l.find("get_readable") != std::string::npos) { size_t sp = l.find_first_of(" ("); frame = l.substr(0, sp); break; }
        q += 4;
    }
    if (frame.empty() && (p = desc.find("runtime error")) != std::string::npos) { // ubsan: file:line before
        size_t ls = desc.rfind('\n', p); std::string l = desc.substr(ls == std::string::npos ? 0 : ls + 1, p - (ls == std::string::npos ? 0 : ls + 1));
        size_t sl = l.rfind('/'); if (sl != std::string::npos) l = l.substr(sl + 1); size_t c = l.find(':'); if (c != std::string::npos) frame = l.substr(0, c);
    }
    return kind + "|" + frame;
}

} // namespace vh
