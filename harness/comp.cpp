// C14: compression transparency. Every call sequence over {write(size, class), rotate} up to a
// length on the real Gzip/Xz writers (named files and descriptors); every output must be exactly
// one complete stream of its format whose decompression equals what the plain writer produced.
// Default 8 MiB stack on purpose (plain build, no sanitizer) - large single writes are part of the alphabet.
#include "util.hpp"
#include "libdump.hpp"
#include <zlib.h>
#include <lzma.h>
using namespace vh;
using namespace CDNS;

static std::string g_dir;

// Passive observers of the codec calls the writers make (the real deflate / lzma_code are called unchanged): they classify each pass so that
// the exploration can show that it reached the codec states that matter - a pass that consumed only part of the chunk (output space ran
// out first), and a stream finish that needed more than one pass.
#include <dlfcn.h>
static uint64_t g_gz_partial = 0, g_gz_finish_more = 0, g_xz_partial = 0, g_xz_finish_more = 0, g_gz_nothing = 0;
extern "C" int deflate(z_streamp s, int flush) {
    static auto real = (int (*)(z_streamp, int))dlsym(RTLD_NEXT, "deflate"); uInt in0 = s->avail_in; int r = real(s, flush);
    if (flush == Z_NO_FLUSH && s->avail_in != 0) { if (s->avail_in != in0) g_gz_partial++; else g_gz_nothing++; }
    if (flush == Z_FINISH && r == Z_OK) g_gz_finish_more++;
    return r;
}
// Environment deviation "short write": with g_wcap > 0 every write(2) to a descriptor above 2 transfers at most g_wcap bytes (a legal answer of
// the operating system: pipes, signals, quotas); the writers have to resume with the rest.
#include <sys/syscall.h>
static size_t g_wcap = 0; static uint64_t g_short_writes = 0;
extern "C" ssize_t write(int fd, const void* buf, size_t n) { if (g_wcap && fd > 2 && n > g_wcap) { g_short_writes++; n = g_wcap; } return syscall(SYS_write, fd, buf, n); }
extern "C" lzma_ret lzma_code(lzma_stream* s, lzma_action act) {
    static auto real = (lzma_ret (*)(lzma_stream*, lzma_action))dlsym(RTLD_NEXT, "lzma_code"); size_t in0 = s->avail_in; lzma_ret r = real(s, act);
    if (act == LZMA_RUN && s->avail_in != 0 && s->avail_in != in0) g_xz_partial++;
    if (act == LZMA_FINISH && r == LZMA_OK) g_xz_finish_more++;
    return r;
}

static bool gunzip1(const std::string& z, std::string& out, std::string& why) {
    out.clear(); if (z.empty()) { why = "empty file"; return false; }
    z_stream s; memset(&s, 0, sizeof s); if (inflateInit2(&s, 31) != Z_OK) { why = "init"; return false; }
    s.next_in = (Bytef*)z.data(); s.avail_in = z.size(); std::vector<char> buf(1 << 20); int r;
    do { s.next_out = (Bytef*)buf.data(); s.avail_out = buf.size(); r = inflate(&s, Z_NO_FLUSH); out.append(buf.data(), buf.size() - s.avail_out); } while (r == Z_OK);
    size_t left = s.avail_in; inflateEnd(&s);
    if (r != Z_STREAM_END) { why = "stream not complete (zlib " + std::to_string(r) + ")"; return false; }
    if (left) { why = std::to_string(left) + " bytes after the end of the gzip stream"; return false; }
    return true;
}
static bool unxz1(const std::string& z, std::string& out, std::string& why) {
    out.clear(); if (z.empty()) { why = "empty file"; return false; }
    lzma_stream s = LZMA_STREAM_INIT; if (lzma_stream_decoder(&s, UINT64_MAX, 0) != LZMA_OK) { why = "init"; return false; }   // no CONCATENATED: exactly one stream
    s.next_in = (const uint8_t*)z.data(); s.avail_in = z.size(); std::vector<uint8_t> buf(1 << 20); lzma_ret r;
    do { s.next_out = buf.data(); s.avail_out = buf.size(); r = lzma_code(&s, LZMA_RUN); out.append((char*)buf.data(), buf.size() - s.avail_out); } while (r == LZMA_OK && (s.avail_in > 0 || s.avail_out == 0));
    if (r == LZMA_OK) { do { s.next_out = buf.data(); s.avail_out = buf.size(); r = lzma_code(&s, LZMA_FINISH); out.append((char*)buf.data(), buf.size() - s.avail_out); } while (r == LZMA_OK); }
    size_t left = s.avail_in; lzma_end(&s);
    if (r != LZMA_STREAM_END) { why = "stream not complete (lzma " + std::to_string(r) + ")"; return false; }
    if (left) { why = std::to_string(left) + " bytes after the end of the xz stream"; return false; }
    return true;
}

static std::string payload(size_t n, int cls, unsigned salt) {
    std::string s(n, 0);
    switch (cls) {
    case 0: break;                                                                                      // zeros
    case 1: for (size_t i = 0; i < n; i++) s[i] = "query response example.com "[(i + salt) % 27]; break; // text-like
    case 2: { uint64_t x = 88172645463325252ULL + salt; for (size_t i = 0; i < n; i++) { x ^= x << 13; x ^= x >> 7; x ^= x << 17; s[i] = (char)x; } break; } // incompressible
    case 4: { uint64_t x = 88172645463325252ULL + salt; for (size_t i = 0; i < n; i++) { x ^= x << 13; x ^= x >> 7; x ^= x << 17; s[i] = (i % 8 < 5) ? "abcde"[i % 8] : (char)x; } break; } // mixed: short matches between random literals (deflate blocks end often and are large)
    case 3: { static const unsigned char gz[] = {0x1f, 0x8b, 8, 0, 0, 0, 0, 0, 0, 3, 3, 0, 0, 0, 0, 0, 0, 0, 0, 0}; for (size_t i = 0; i < n; i++) s[i] = (char)gz[i % sizeof gz]; break; }  // looks already gzipped
    }
    return s;
}

// a writer with static storage duration: it is destroyed by exit(), after every function-local static that was first used later than program start
static std::unique_ptr<BaseCborOutputWriter> g_static_writer;

struct Step { int kind; size_t size; int cls; };   // kind 0 write, 1 rotate, 2 (only as first step) short-write cap of `size` bytes for the whole sequence
static std::string steps_str(const std::vector<Step>& v) { std::string s; for (auto& x : v) s += x.kind == 2 ? "S" + std::to_string(x.size) + "," : x.kind == 3 ? "Q," : x.kind ? "R," : "W" + std::to_string(x.size) + "c" + std::to_string(x.cls) + ","; return s; }

struct CV { std::string key, what; };

// comp: 1 gzip, 2 xz ; sink: 0 name, 1 fd
static void run_seq(int comp, int sink, const std::vector<Step>& steps, Result& R, std::vector<CV>& out) {
    std::string base = g_dir + "/c" + std::to_string(getpid()) + "_"; std::vector<std::string> names; std::vector<std::string> expect(1);
    const char* ext = comp == 1 ? ".gz" : ".xz"; uint64_t c0[5] = {g_gz_partial, g_gz_finish_more, g_xz_partial, g_xz_finish_more, g_gz_nothing};
    // output names: plain, with dots, already ending in the format's own suffix (the suffix is appended to whatever name was given)
    auto newname = [&]() { static const char* TAIL[] = {"", ".cdns", ".gz", ".tar.xz", ".part"}; std::string n = base + std::to_string(names.size()) + TAIL[(names.size() + steps.size()) % 5]; names.push_back(n);
        if (sink == 0) { std::string junk(500, 0); for (size_t i = 0; i < junk.size(); i++) junk[i] = (char)(i * 13 + 1); spit(n + ext + ".part", junk); }   // a dead earlier run left its temporary file behind
        return n; };
    auto opensink = [&](const std::string& n) { return open(n.c_str(), O_WRONLY | O_CREAT | O_TRUNC, 0600); };
    std::string same_name_problem;
    {
        std::unique_ptr<BaseCborOutputWriter> w; std::string n0 = newname();
        if (sink == 0) { if (comp == 1) w.reset(new GzipCborOutputWriter(n0)); else w.reset(new XzCborOutputWriter(n0)); }
        else { int fd = opensink(n0); if (comp == 1) w.reset(new GzipCborOutputWriter(fd)); else w.reset(new XzCborOutputWriter(fd)); }
        unsigned salt = 0; uint64_t sw0 = g_short_writes;
        struct CapGuard { ~CapGuard() { g_wcap = 0; } } capguard;
        for (auto& st : steps) {
            if (st.kind == 2) { g_wcap = st.size; continue; }
            if (st.kind == 0) { std::string p = payload(st.size, st.cls, salt++); w->write(p.data(), p.size()); expect.back() += p; }
            else if (st.kind == 3 && sink == 0) { // rotation onto the name that is open right now: the old stream is finished and published, a new one replaces it under the same name
                std::string n = names.back(); names.push_back(n); w->rotate_output(boost::any(n)); expect.emplace_back();
                std::string z = slurp(n + ext), plain, why; bool ok = comp == 1 ? gunzip1(z, plain, why) : unxz1(z, plain, why);
                if (!ok) same_name_problem = "after rotating onto the open name the file under it is not one complete stream: " + why; else if (plain != expect[expect.size() - 2]) same_name_problem = "after rotating onto the open name the file under it does not hold the data written before the rotation"; }
            else { std::string n = newname(); if (sink == 0) w->rotate_output(boost::any(n)); else w->rotate_output(boost::any(opensink(n))); expect.emplace_back(); }
            R.count("transitions");
        }
        w.reset(); g_wcap = 0; R.count("short_writes", g_short_writes - sw0);
    }
    R.count("gz_partial_input_passes", g_gz_partial - c0[0]); R.count("gz_finish_multipass", g_gz_finish_more - c0[1]); R.count("xz_partial_input_passes", g_xz_partial - c0[2]); R.count("xz_finish_multipass", g_xz_finish_more - c0[3]); R.count("gz_output_only_passes", g_gz_nothing - c0[4]);
    if (!same_name_problem.empty()) out.push_back({std::string("rotation-onto-open-name|") + (comp == 1 ? "gzip" : "xz"), same_name_problem});
    for (size_t i = 0; i < names.size(); i++) {
        bool replaced = false; for (size_t j = i + 1; j < names.size(); j++) if (names[j] == names[i]) replaced = true; if (replaced) continue;   // a later output took this name
        std::string path = names[i] + (sink == 0 ? ext : ""); struct stat st; std::string tag = std::string(comp == 1 ? "gzip" : "xz") + (sink ? "|fd" : "|name");
        if (stat(path.c_str(), &st) != 0) { out.push_back({"missing-output|" + tag, "output " + std::to_string(i) + " not found under " + path.substr(path.rfind('/') + 1)}); continue; }
        if (sink == 0 && stat((names[i] + ext + ".part").c_str(), &st) == 0) out.push_back({"part-left|" + tag, "output " + std::to_string(i) + ": .part file left behind"});
        std::string z = slurp(path), plain, why;
        bool ok = comp == 1 ? gunzip1(z, plain, why) : unxz1(z, plain, why);
        if (!ok) out.push_back({"not-one-complete-stream|" + tag, "output " + std::to_string(i) + ": " + why});
        else if (plain != expect[i]) { size_t p = 0; while (p < plain.size() && p < expect[i].size() && plain[p] == expect[i][p]) p++; out.push_back({"content-differs|" + tag, "output " + std::to_string(i) + ": decompressed " + std::to_string(plain.size()) + " bytes, written " + std::to_string(expect[i].size()) + ", first difference at " + std::to_string(p)}); }
        unlink(path.c_str()); unlink((names[i] + ext + ".part").c_str());
    }
}

// "destruction" at process exit: a forked child writes through a writer of static storage duration and calls exit(); the output must be complete
static void run_static_exit(int comp, int sink, Result& R, std::vector<CV>& out) {
    std::string name = g_dir + "/s" + std::to_string(getpid()) + "_static"; const char* ext = comp == 1 ? ".gz" : ".xz"; std::string path = name + (sink == 0 ? ext : "");
    std::string expect = payload(3000, 1, 0) + payload(70000, 4, 1) + payload(5, 2, 2);
    fflush(stdout); fflush(stderr); pid_t p = fork();
    if (p == 0) {
        if (sink == 0) { if (comp == 1) g_static_writer.reset(new GzipCborOutputWriter(name)); else g_static_writer.reset(new XzCborOutputWriter(name)); }
        else { int fd = open(path.c_str(), O_WRONLY | O_CREAT | O_TRUNC, 0600); if (comp == 1) g_static_writer.reset(new GzipCborOutputWriter(fd)); else g_static_writer.reset(new XzCborOutputWriter(fd)); }
        std::string a = payload(3000, 1, 0), b = payload(70000, 4, 1), c = payload(5, 2, 2);
        g_static_writer->write(a.data(), a.size()); g_static_writer->write(b.data(), b.size()); g_static_writer->write(c.data(), c.size());
        exit(0);   // not _exit: static destructors run, the writer closes its stream there
    }
    int st = 0; waitpid(p, &st, 0); R.count("transitions", 4); R.count("static_exit_runs");
    std::string tag = std::string("static-exit|") + (comp == 1 ? "gzip" : "xz") + (sink ? "|fd" : "|name");
    if (!WIFEXITED(st) || WEXITSTATUS(st) != 0) out.push_back({"abnormal-exit|" + tag, "process whose writer is destroyed by exit() ended with " + (WIFSIGNALED(st) ? "signal " + std::to_string(WTERMSIG(st)) : "status " + std::to_string(WEXITSTATUS(st)))});
    std::string z = slurp(path), plain, why; struct stat sb;
    if (stat(path.c_str(), &sb) != 0) out.push_back({"missing-output|" + tag, "no output under its final name after exit()"});
    else { bool ok = comp == 1 ? gunzip1(z, plain, why) : unxz1(z, plain, why); if (!ok) out.push_back({"not-one-complete-stream|" + tag, why}); else if (plain != expect) out.push_back({"content-differs|" + tag, "decompressed " + std::to_string(plain.size()) + " bytes, written " + std::to_string(expect.size())}); }
    unlink(path.c_str()); unlink((name + ext + ".part").c_str());
}

// end to end: the same records exported through CdnsExporter with compression `comp` and without; decompressed output must equal the plain one
static int g_export_oracle = 0;   // 0: transparency (C14); 1: byte counts (C10); 2: well-formedness (C02)
static void run_export(int comp, int sink, int nrec, int kind, Result& R, std::vector<CV>& out) {
    uint64_t reported = 0;
    std::string base = g_dir + "/e" + std::to_string(getpid()) + "_"; uint64_t c0[4] = {g_gz_partial, g_gz_finish_more, g_xz_partial, g_xz_finish_more};
    auto doit = [&](CborOutputCompression cc, const std::string& name) {
        BlockParameters bp; bp.storage_parameters.max_block_items = kind == 3 ? 1 : kind == 0 ? 10000 : 97; std::vector<BlockParameters> bps = {bp}; FilePreamble fp(bps);   // kind 3: one record per block (more than 2^16 blocks in one output)
        std::unique_ptr<CdnsExporter> e; if (sink == 0) e.reset(new CdnsExporter(fp, name, cc)); else e.reset(new CdnsExporter(fp, open(name.c_str(), O_WRONLY | O_CREAT | O_TRUNC, 0600), cc));
        uint64_t x = 88172645463325252ULL;
        for (int i = 0; i < nrec; i++) { GenericQueryResponse q; q.ts = Timestamp(1600000000 + i / 50, (i * 7919) % 1000000); q.client_port = (uint16_t)(i * 31); q.transaction_id = (uint16_t)i; q.query_size = 40 + i % 60; q.response_size = 100 + (i * 13) % 1400;
            std::string nm(12 + i % 20, 0); for (auto& ch : nm) { x ^= x << 13; x ^= x >> 7; x ^= x << 17; ch = (char)('a' + (x >> 11) % (kind == 2 ? 256 : 26)); } q.query_name = nm + std::string("\x07""example\x03""com\x00", 13);
            std::string ip(4, 0); for (auto& ch : ip) { x ^= x << 13; x ^= x >> 7; x ^= x << 17; ch = (char)(x >> 9); } q.client_ip = ip; q.server_ip = std::string("\xc0\x00\x02\x01", 4); q.query_rcode = i % 5; q.response_delay = (int64_t)(x % 100000);
            size_t r = e->buffer_qr(q); if (cc != CborOutputCompression::NO_COMPRESSION) reported += r; R.count("transitions");
            if (g_export_oracle == 3 && i == nrec / 2) { if (sink == 0) e->rotate_output(name + "_second", true); else e->rotate_output(open((name + "_second").c_str(), O_WRONLY | O_CREAT | O_TRUNC, 0600), true); } }
        size_t r = e->write_block(); if (cc != CborOutputCompression::NO_COMPRESSION) reported += r + 1;   // + the closing break written when the output is closed
    };
    std::string pn = base + "plain", cn = base + "comp"; const char* ext = comp == 1 ? ".gz" : ".xz";
    doit(CborOutputCompression::NO_COMPRESSION, pn); doit(comp == 1 ? CborOutputCompression::GZIP : CborOutputCompression::XZ, cn);
    R.count("gz_partial_input_passes", g_gz_partial - c0[0]); R.count("gz_finish_multipass", g_gz_finish_more - c0[1]); R.count("xz_partial_input_passes", g_xz_partial - c0[2]); R.count("xz_finish_multipass", g_xz_finish_more - c0[3]);
    std::string tag = std::string("export|") + (comp == 1 ? "gzip" : "xz") + (sink ? "|fd" : "|name"); std::string cpath = cn + (sink == 0 ? ext : "");
    std::string expect = slurp(pn), z = slurp(cpath), plain, why; bool ok = comp == 1 ? gunzip1(z, plain, why) : unxz1(z, plain, why);
    R.count("export_plain_bytes", expect.size());
    if (expect.size() < 1000) out.push_back({"harness|" + tag, "plain export is empty"});
    if (g_export_oracle == 3) { // C13: the export is rotated half-way (with export of the buffered block): both outputs are complete valid files and together hold every record once, in order
        std::string z2 = slurp(cn + "_second" + (sink == 0 ? ext : "")), plain2, why2; bool ok2 = comp == 1 ? gunzip1(z2, plain2, why2) : unxz1(z2, plain2, why2); size_t nq = 0; std::vector<uint64_t> ids;
        if (!ok) out.push_back({"rotated|undecodable-output|" + tag, "first output: " + why}); if (!ok2) out.push_back({"rotated|undecodable-output|" + tag, "second output: " + why2});
        if (ok && ok2) { try { for (const std::string* pl : {&plain, &plain2}) { ref::RFile rf = ref::read_file(*pl); for (auto& b : rf.blocks) nq += b.qrs.size(); } R.count("export_records_validated", nq);
                               if (nq != (size_t)nrec) out.push_back({"rotated|records-lost-or-repeated|" + tag, "the two outputs hold " + std::to_string(nq) + " query/response records, " + std::to_string(nrec) + " were buffered"});
                               if (plain + "|" + plain2 != expect + "|" + slurp(pn + "_second")) out.push_back({"rotated|content-differs|" + tag, "the rotated compressed outputs do not decompress to what the uncompressed exporter wrote for the same calls"}); }
                         catch (std::exception& e) { out.push_back({"rotated|invalid-document|" + tag, std::string("an output of the rotated export is not a valid C-DNS document: ") + e.what()}); } }
        for (const std::string& b : {pn, cn}) { unlink(b.c_str()); unlink((b + ext).c_str()); unlink((b + "_second").c_str()); unlink((b + "_second" + ext).c_str()); unlink((b + ext + ".part").c_str()); } return; }
    if (g_export_oracle == 1) { // C10: the counts returned while the output was open add up to the size of its uncompressed content
        if (!ok) out.push_back({"count|undecodable-output|" + tag, why}); else if (plain.size() != reported) out.push_back({"count|" + tag, "the calls reported " + std::to_string(reported) + " bytes, the output decompresses to " + std::to_string(plain.size()) + " bytes"});
        unlink(pn.c_str()); unlink(cpath.c_str()); unlink((cn + ext + ".part").c_str()); return; }
    if (g_export_oracle == 2) { // C02: the decompressed output is one well-formed, schema-valid document
        if (!ok) out.push_back({"wellformed|undecodable-output|" + tag, why}); else { try { ref::RFile rf = ref::read_file(plain); size_t nq = 0; for (auto& b : rf.blocks) nq += b.qrs.size(); R.count("export_records_validated", nq); } catch (std::exception& e) { out.push_back({"wellformed|invalid-document|" + tag, std::string("the decompressed output (") + std::to_string(plain.size()) + " bytes) is not a valid C-DNS document: " + e.what()}); } }
        unlink(pn.c_str()); unlink(cpath.c_str()); unlink((cn + ext + ".part").c_str()); return; }
    if (!ok) out.push_back({"not-one-complete-stream|" + tag, why});
    else if (plain != expect) { size_t p = 0; while (p < plain.size() && p < expect.size() && plain[p] == expect[p]) p++; out.push_back({"content-differs|" + tag, "decompressed export has " + std::to_string(plain.size()) + " bytes, the plain export " + std::to_string(expect.size()) + ", first difference at " + std::to_string(p)}); }
    unlink(pn.c_str()); unlink(cpath.c_str()); unlink((cn + ext + ".part").c_str());
}

int main(int argc, char** argv) {
    Args a = Args::parse(argc, argv); g_dir = scratch_dir(); Result total; bool T = a.thorough();
    if (a.mode == "export-counts") g_export_oracle = 1; else if (a.mode == "export-wellformed") g_export_oracle = 2; else if (a.mode == "export-rotated") g_export_oracle = 3;
    auto done = [&](int rc) { a.finish(total); rm_rf(g_dir); return rc; };
    auto parse = [](const std::string& s, int& comp, int& sink, std::vector<Step>& st) {
        if (sscanf(s.c_str(), "comp=%d;sink=%d;", &comp, &sink) != 2) return false; size_t p = s.find("steps="); if (p == std::string::npos) return false; p += 6;
        while (p < s.size()) { if (s[p] == 'R') { st.push_back({1, 0, 0}); p += 2; } else if (s[p] == 'Q') { st.push_back({3, 0, 0}); p += 2; } else if (s[p] == 'S') { st.push_back({2, (size_t)strtoull(s.c_str() + p + 1, nullptr, 10), 0}); p = s.find(',', p) + 1; } else if (s[p] == 'W') { size_t sz; int c; if (sscanf(s.c_str() + p, "W%zuc%d,", &sz, &c) != 2) return false; st.push_back({0, sz, c}); p = s.find(',', p) + 1; } else break; } return true; };
    auto emit_dir = a.kv.count("emit") ? a.kv["emit"] : std::string();
    if (!a.replay.empty() && slurp(a.replay).find("staticexit=") != std::string::npos) { std::string s = slurp(a.replay); s = s.substr(s.find("staticexit=")); int comp, sink; if (sscanf(s.c_str(), "staticexit=1;comp=%d;sink=%d", &comp, &sink) != 2) return done(2);
        Pool rp(1, 300); rp.run(1, [&](uint64_t, Result& R) { std::vector<CV> out; run_static_exit(comp, sink, R, out); for (auto& v : out) R.violation("comp|" + v.key, v.what, s); },
                               [&](uint64_t, const std::string& d, Result& R) { R.violation(std::string("comp|crash|static-exit|") + crash_key(d), d.substr(0, 800), s); }, total); return done(total.viol.empty() ? 0 : 1); }
    if (!a.replay.empty() && slurp(a.replay).find("export=") != std::string::npos) { std::string s = slurp(a.replay); s = s.substr(s.find("export=")); int comp, sink, n, kind; if (sscanf(s.c_str(), "export=1;comp=%d;sink=%d;n=%d;kind=%d", &comp, &sink, &n, &kind) != 4) return done(2);
        Pool rp(1, 900); rp.run(1, [&](uint64_t, Result& R) { std::vector<CV> out; run_export(comp, sink, n, kind, R, out); for (auto& v : out) R.violation("comp|" + v.key, v.what, s); },
                               [&](uint64_t, const std::string& d, Result& R) { R.violation(std::string("comp|crash|export|") + crash_key(d), d.substr(0, 800), s); }, total); return done(total.viol.empty() ? 0 : 1); }
    if (!a.replay.empty()) { std::string s = slurp(a.replay); int comp, sink; std::vector<Step> st; if (!parse(s, comp, sink, st)) return done(2);
        Pool rp(1, 600); rp.run(1, [&](uint64_t, Result& R) { std::vector<CV> out; run_seq(comp, sink, st, R, out); for (auto& v : out) R.violation("comp|" + v.key, v.what, s); },
                               [&](uint64_t, const std::string& d, Result& R) { R.violation(std::string("comp|crash|") + (comp == 1 ? "gzip" : "xz") + "|" + crash_key(d), d.substr(0, 800), s); }, total); return done(total.viol.empty() ? 0 : 1); }
    std::vector<size_t> sizes = {0, 1, 2, 2047, 2048, 2049, 65536, 1 << 20};
    std::vector<Step> alpha; for (size_t s : sizes) for (int c = 0; c < 4; c++) { if (s <= 2 && c > 1) continue; if (s == (1 << 20) && (c == 1 || c == 3) && !T) continue; alpha.push_back({0, s, c}); } alpha.push_back({1, 0, 0}); alpha.push_back({3, 0, 0});   // rotate to a new name / onto the open name
    int D = T ? 3 : 2;
    struct Task { int comp, sink; std::vector<Step> st; bool expand; int exp_n = 0, exp_kind = 0; bool static_exit = false; };
    std::vector<Task> tasks;
    for (int comp = 1; comp <= 2; comp++) for (int sink = 0; sink < 2; sink++) {
        tasks.push_back({comp, sink, {}, false});
        for (auto& x : alpha) tasks.push_back({comp, sink, {x}, true});
        // large single writes (and write-rotate-write) : chunk sizes up to tens of MiB
        std::vector<size_t> big = T ? std::vector<size_t>{5u << 20, 6u << 20, 8u << 20, 16u << 20, 48u << 20} : std::vector<size_t>{8u << 20};
        for (size_t s : big) for (int c : {0, 2}) { if (c == 2 && comp == 2 && s > (8u << 20) ) continue; tasks.push_back({comp, sink, {{0, s, c}}, false}); if (T || c == 0) tasks.push_back({comp, sink, {{0, 3, 1}, {1, 0, 0}, {0, s, c}, {0, 1, 1}}, false}); }
    }
    // chunking sweep: the same 600 KiB written in chunks of one size (every write after enough data has accumulated for the codec to emit large outputs)
    { std::vector<size_t> chunks = {1, 2, 3, 7, 100, 1000, 2047, 2048, 2049, 2975, 2976, 2977, 3000, 3500, 4095, 4096, 4097, 5000, 8191, 8192, 8193, 65535, 65536, 100000};
      if (!T) chunks = {1, 100, 2048, 2976, 3000, 3500, 4096, 4097, 8192, 65536};
      size_t total_bytes = 600u << 10;
      for (int comp = 1; comp <= 2; comp++) for (int sink = 0; sink < 2; sink++) for (size_t c : chunks) for (int cls : {1, 2}) { if (!T && sink == 1 && (c == 1 || c == 100)) continue; if (c <= 3 && comp == 2 && cls == 1) continue;
          std::vector<Step> st; for (size_t done_ = 0; done_ < total_bytes; done_ += c) st.push_back({0, std::min(c, total_bytes - done_), cls}); tasks.push_back({comp, sink, st, false}); }
      // mixed-entropy data, for which deflate closes large blocks often: these chunkings reach passes that consume only a part of the chunk
      // (the output space of size + size/3 + 128 runs out while the chunk straddles a window slide) - see the gz_partial_input_passes counter
      std::vector<size_t> mchunks = T ? std::vector<size_t>{100, 1000, 2040, 2049, 3000, 5000, 7000, 10000, 12000} : std::vector<size_t>{3000, 7000, 10000};
      for (int comp = 1; comp <= 2; comp++) for (int sink = 0; sink < 2; sink++) for (size_t c : mchunks) { size_t tb = (T && comp == 1) ? (4u << 20) : total_bytes; if (!T && comp == 2 && c != 7000) continue;
          std::vector<Step> st; for (size_t done_ = 0; done_ < tb; done_ += c) st.push_back({0, std::min(c, tb - done_), 4}); tasks.push_back({comp, sink, st, false}); }
      // short writes: every write(2) of the sequence transfers at most `cap` bytes
      for (int comp = 1; comp <= 2; comp++) for (int sink = 0; sink < 2; sink++) for (size_t cap : T ? std::vector<size_t>{1, 7, 1000, 4096, 65536} : std::vector<size_t>{7, 4096}) {
          tasks.push_back({comp, sink, {{2, cap, 0}, {0, 65536, 2}}, false}); tasks.push_back({comp, sink, {{2, cap, 0}, {0, 2049, 1}, {1, 0, 0}, {0, 65536, 4}, {0, 1, 0}, {1, 0, 0}, {0, 300000, 2}}, false}); }
      // end to end through the exporter (chunks of 2040..2048 bytes as the encoder flushes them)
      for (int comp = 1; comp <= 2; comp++) for (int sink = 0; sink < 2; sink++) for (int kind = 0; kind < 3; kind++) { if (!T && (kind == 1 || (comp == 2 && sink == 1))) continue; Task t{comp, sink, {}, false}; t.exp_n = T ? 60000 : 25000; t.exp_kind = kind; tasks.push_back(t); } }
    // only in the dedicated stage (AddressSanitizer build): without a sanitizer the use of a destroyed static may or may not be noticed, which would not replay
    // dedicated stages of C10 / C02: only the end-to-end exports (large compressed outputs), judged by the byte-count / well-formedness oracle
    if (a.mode == "export-counts" || a.mode == "export-wellformed" || a.mode == "export-rotated") { tasks.clear();
        if (a.mode == "export-wellformed") { Task t{1, 0, {}, false}; t.exp_n = 70000; t.exp_kind = 3; tasks.push_back(t); }   // 70000 blocks in one output (block counters narrower than 17 bits)
        for (int comp = 1; comp <= 2; comp++) for (int sink = 0; sink < 2; sink++) for (int kind = 0; kind < 3; kind++) for (int n : T ? std::vector<int>{3000, 25000, 60000} : std::vector<int>{3000, 25000}) { if (!T && kind == 1) continue; Task t{comp, sink, {}, false}; t.exp_n = n; t.exp_kind = kind; tasks.push_back(t); } }
    if (a.mode == "static-exit") { tasks.clear(); for (int comp = 1; comp <= 2; comp++) for (int sink = 0; sink < 2; sink++) { Task t{comp, sink, {}, false}; t.static_exit = true; tasks.push_back(t); } }
    Pool pool(a.jobs, 900);
    pool.run(tasks.size(), [&](uint64_t ti, Result& R) {
        if (a.expired()) { R.deadline_hit = true; return; }
        const Task& t = tasks[ti];
        if (t.static_exit) { std::string rep = "staticexit=1;comp=" + std::to_string(t.comp) + ";sink=" + std::to_string(t.sink); set_note(rep); std::vector<CV> out; run_static_exit(t.comp, t.sink, R, out); R.count("traces"); R.count("nontrivial");
            for (auto& v : out) R.violation("comp|" + v.key, v.what + " [" + rep + "]", rep); R.outcome(std::string("static-exit-") + (t.comp == 1 ? "gz" : "xz") + (out.empty() ? ":ok" : ":viol")); return; }
        if (t.exp_n) { std::string rep = "export=1;comp=" + std::to_string(t.comp) + ";sink=" + std::to_string(t.sink) + ";n=" + std::to_string(t.exp_n) + ";kind=" + std::to_string(t.exp_kind); set_note(rep); std::vector<CV> out; run_export(t.comp, t.sink, t.exp_n, t.exp_kind, R, out);
            R.count("traces"); R.count("nontrivial"); R.count("export_runs"); for (auto& v : out) R.violation("comp|" + v.key, v.what + " [" + rep + "]", rep); R.outcome(std::string("export-") + (t.comp == 1 ? "gz" : "xz") + (out.empty() ? ":ok" : ":viol")); R.sample(rep); return; }
        auto exec = [&](const std::vector<Step>& st) { std::string rep = "comp=" + std::to_string(t.comp) + ";sink=" + std::to_string(t.sink) + ";steps=" + steps_str(st); set_note(rep); std::vector<CV> out; run_seq(t.comp, t.sink, st, R, out); R.count("traces"); if (!st.empty()) R.count("nontrivial");
            for (auto& v : out) R.violation("comp|" + v.key, v.what + " [" + rep + "]", rep); R.outcome(std::string(t.comp == 1 ? "gz" : "xz") + (t.sink ? "-fd" : "-name") + (out.empty() ? ":ok" : ":viol")); if (R.n["traces"] % 257 == 5) R.sample(rep); };
        if (!t.expand) { exec(t.st); return; }
        std::vector<Step> st = t.st;
        std::function<void(int)> rec = [&](int d) { exec(st); if (d == D) return; for (auto& x : alpha) { if (x.size >= (1 << 20) && d >= 2) continue; if (t.comp == 2 && d >= 2 && x.size > 2049) continue; st.push_back(x); rec(d + 1); st.pop_back(); } };
        rec(1); R.count("states");
    }, [&](uint64_t ti, const std::string& d, Result& R) { R.violation(std::string("comp|crash|") + (tasks[ti].comp == 1 ? "gzip" : "xz") + "|" + crash_key(d), "writer crashed: " + d.substr(0, 600) + " running " + pool.last_note, pool.last_note); }, total);
    total.n["evaluations"] = total.n["traces"];
    // optional: leave a sample of outputs + expected plain files for the Python cross-check
    if (!emit_dir.empty()) {
        int k = 0; for (int comp = 1; comp <= 2; comp++) for (int sink = 0; sink < 2; sink++) for (auto& seq : std::vector<std::vector<Step>>{{}, {{0, 0, 0}}, {{0, 1, 1}}, {{0, 2049, 1}, {0, 65536, 2}}, {{0, 1 << 20, 0}, {0, 5, 3}}, {{0, 2047, 3}, {0, 2048, 2}, {0, 1, 0}}}) {
            const char* ext = comp == 1 ? ".gz" : ".xz"; std::string n = emit_dir + "/s" + std::to_string(k++); std::string exp;
            { std::unique_ptr<BaseCborOutputWriter> w; if (sink == 0) { if (comp == 1) w.reset(new GzipCborOutputWriter(n)); else w.reset(new XzCborOutputWriter(n)); } else { int fd = open((n + ext).c_str(), O_WRONLY | O_CREAT | O_TRUNC, 0600); if (comp == 1) w.reset(new GzipCborOutputWriter(fd)); else w.reset(new XzCborOutputWriter(fd)); }
              unsigned salt = 0; for (auto& st : seq) { std::string p = payload(st.size, st.cls, salt++); w->write(p.data(), p.size()); exp += p; } }
            spit(n + ".expected", exp);
        }
    }
    return done(0);
}
