// E-SCHED (C20): independent exporter/reader instances in concurrent threads.
//  level 1: cooperative scheduler over interposed calls (write, writev, read, rename, close, fstat, inet_ntop, deflate,
//           lzma_code): every schedule of 2..3 worker bodies with <= P preemptions (stateless DFS over choice prefixes)
//  level 2: library compiled with -finstrument-functions: every function entry/exit is a scheduling point; for every
//           ordered pair (A,B) and every point i of A: A runs to i, B runs to completion, A resumes
//  tsan   : the same bodies free-running (no scheduler) under ThreadSanitizer with injected yields (side condition)
#include "util.hpp"
#include "seeds.hpp"
#include <pthread.h>
#include <sched.h>
#include <dlfcn.h>
#include <sys/uio.h>
#include <sys/syscall.h>
#include <arpa/inet.h>
#include <zlib.h>
#include <lzma.h>
#include <mutex>
#include <condition_variable>
#include <thread>
#include <atomic>
using namespace vh;
using namespace CDNS;

#define NOINSTR __attribute__((no_instrument_function))

// ------------------------------------------------------------------ scheduler
struct Point { int tid; char kind; int nenabled; int choice; bool running_enabled; };
struct SchedState {
    bool active = false; int level = 1; int n = 0; bool done[8]; std::vector<int> prefix; size_t pos = 0; std::vector<Point> points; bool diverged = false; uint64_t yield_seed = 0; bool free_running = false;
};
static SchedState S;
static std::mutex M; static std::condition_variable CVv; static int RUN = -1;
static thread_local int TID = -1; static thread_local bool IN_HOOK = false; static thread_local int CLOSES = 0;
static int g_eintr_thread = -1, g_eintr_index = -1;   // environment deviation: the k-th close() of one thread releases the descriptor but reports EINTR (Linux semantics)

NOINSTR static void wait_turn(int t) { std::unique_lock<std::mutex> l(M); CVv.wait(l, [&] { return RUN == t; }); }
NOINSTR static void hand_to(int to) { { std::lock_guard<std::mutex> l(M); RUN = to; } CVv.notify_all(); }

NOINSTR static void sched_point(char kind) {
    if (TID < 0 || IN_HOOK) return;
    if (S.free_running) { // tsan pass: pseudo-random yields, no serialisation
        static std::atomic<uint64_t> ctr{0}; uint64_t x = ctr.fetch_add(1, std::memory_order_relaxed) * 0x9e3779b97f4a7c15ULL + S.yield_seed; x ^= x >> 29; if ((x & 3) == 0) sched_yield(); return; }
    if (!S.active) return;
    IN_HOOK = true;
    int t = TID; int en[8]; int ne = 0; en[ne++] = t; for (int i = 0; i < S.n; i++) if (i != t && !S.done[i]) en[ne++] = i;
    int choice = S.pos < S.prefix.size() ? S.prefix[S.pos] : 0; S.pos++;
    if (choice >= ne) { S.diverged = true; choice = 0; }
    S.points.push_back({t, kind, ne, choice, true});
    if (choice != 0) { hand_to(en[choice]); wait_turn(t); }
    IN_HOOK = false;
}

// ------------------------------------------------------------------ interposition (level 1 points)
template <class F> NOINSTR static F real(const char* name) { return (F)dlsym(RTLD_NEXT, name); }
extern "C" {
NOINSTR ssize_t write(int fd, const void* b, size_t n) { if (fd > 2) sched_point('w'); return syscall(SYS_write, fd, b, n); }
NOINSTR ssize_t writev(int fd, const struct iovec* v, int c) { if (fd > 2) sched_point('v'); return syscall(SYS_writev, fd, v, c); }
// calls that hand data back into a buffer owned by the caller get a second point right after they return: the window between
// "callee filled the buffer" and "caller consumes it" is where a wrongly shared scratch buffer is overwritten by another thread
NOINSTR ssize_t read(int fd, void* b, size_t n) { if (fd > 2) sched_point('r'); ssize_t r = syscall(SYS_read, fd, b, n); if (fd > 2) sched_point('R'); return r; }
NOINSTR int rename(const char* a, const char* b) { sched_point('n'); return (int)syscall(SYS_rename, a, b); }
NOINSTR int close(int fd) { if (fd > 2) sched_point('c'); int r = (int)syscall(SYS_close, fd); if (fd > 2 && TID >= 0 && TID == g_eintr_thread && CLOSES++ == g_eintr_index && r == 0) { errno = EINTR; return -1; } return r; }
NOINSTR int fstat(int fd, struct stat* st) { sched_point('s'); int r = (int)syscall(SYS_fstat, fd, st); sched_point('S'); return r; }
NOINSTR const char* inet_ntop(int af, const void* src, char* dst, socklen_t size) { sched_point('i'); static auto f = real<const char* (*)(int, const void*, char*, socklen_t)>("inet_ntop"); const char* r = f(af, src, dst, size); sched_point('I'); return r; }
NOINSTR int deflate(z_streamp s, int flush) { sched_point('d'); static auto f = real<int (*)(z_streamp, int)>("deflate"); int r = f(s, flush); sched_point('D'); return r; }
NOINSTR lzma_ret lzma_code(lzma_stream* s, lzma_action a) { sched_point('l'); static auto f = real<lzma_ret (*)(lzma_stream*, lzma_action)>("lzma_code"); lzma_ret r = f(s, a); sched_point('L'); return r; }
// level 2 points: every instrumented function boundary of the library
NOINSTR void __cyg_profile_func_enter(void*, void*) { if (S.level == 2) sched_point('E'); }
NOINSTR void __cyg_profile_func_exit(void*, void*) { if (S.level == 2) sched_point('X'); }
}

// ------------------------------------------------------------------ worker bodies
static std::string g_dir;
static std::string prepared_file;   // input for the reader body

static uint64_t fnv(const std::string& s) { uint64_t h = 1469598103934665603ULL; for (unsigned char c : s) { h ^= c; h *= 1099511628211ULL; } return h; }
static GenericQueryResponse rec_of(const Pools& P, int slot, int i) { GenericQueryResponse q = P.qr[i % 5]; q.query_name = std::string(700 + 13 * slot + i, (char)('a' + (slot * 7 + i) % 26)); q.client_port = 100 * slot + i; q.asn = std::string("AS") + std::to_string(slot) + "-" + std::to_string(i); return q; }

static std::string body_export_fd(int slot, int comp) {   // W1..W3: descriptor sink, read back when uncompressed
    Pools P = make_pools(1000000); BlockParameters bp; bp.storage_parameters.max_block_items = 2; std::vector<BlockParameters> bps = {bp}; FilePreamble fp(bps);
    std::string path = g_dir + "/w" + std::to_string(getpid()) + "_" + std::to_string(slot) + "_" + std::to_string(comp);
    int fd = open(path.c_str(), O_WRONLY | O_CREAT | O_TRUNC, 0600);
    { CdnsExporter e(fp, fd, comp == 0 ? CborOutputCompression::NO_COMPRESSION : comp == 1 ? CborOutputCompression::GZIP : CborOutputCompression::XZ);
      for (int i = 0; i < 8; i++) { e.buffer_qr(rec_of(P, slot, i)); if (i % 4 == 1) e.buffer_aec(P.aec[i % 3]); if (i % 5 == 2) e.buffer_mm(P.mm[0]); } e.write_block(); }
    std::string bytes = slurp(path); std::string d = std::to_string(bytes.size()) + ":" + std::to_string(fnv(bytes));
    if (comp == 0) { std::ifstream f(path, std::ios::binary); d += ":" + std::to_string(fnv(lib::file_dump(lib::read_stream(f)))); }
    return d;
}
static std::string body_export_named(int slot, int comp) {  // W4: named sink with two rotations
    Pools P = make_pools(1000); BlockParameters bp; bp.storage_parameters.max_block_items = 3; bp.storage_parameters.ticks_per_second = 1000; std::vector<BlockParameters> bps = {bp}; FilePreamble fp(bps);
    // a plain exporter in slot k and a gzip exporter in slot k + 1 use the SAME base names: their outputs <name> and <name>.gz are distinct files, anything else
    // derived from the name (temporary files) has to be distinct as well
    std::string base = g_dir + "/n" + std::to_string(getpid()) + "_" + std::to_string(slot - (comp ? 1 : 0)) + "_"; std::string d;
    { CdnsExporter e(fp, base + "0", comp == 0 ? CborOutputCompression::NO_COMPRESSION : CborOutputCompression::GZIP);
      for (int i = 0; i < 9; i++) { e.buffer_qr(rec_of(P, slot + 3, i)); if (i == 3) e.rotate_output(base + "1", true); if (i == 6) e.rotate_output(base + "2", false); } e.write_block(); }
    for (int k = 0; k < 3; k++) { std::string b = slurp(base + std::to_string(k) + (comp ? ".gz" : "")); d += std::to_string(b.size()) + ":" + std::to_string(fnv(b)) + ","; }
    return d;
}
static std::string body_read_render(int slot) {   // W5: read a prepared file, render everything
    (void)slot; std::ifstream f(prepared_file, std::ios::binary); std::string text;
    CdnsReader r(f); text += r.m_file_preamble.string(); bool eof = false;
    for (;;) { CdnsBlockRead b = r.read_block(eof); if (eof) break; text += b.string(); bool end = false;
        for (;;) { auto g = b.read_generic_qr(end); if (end) break; text += g.string(); } for (;;) { auto g = b.read_generic_aec(end); if (end) break; text += g.string(); } for (;;) { auto g = b.read_generic_mm(end); if (end) break; text += g.string(); } }
    return std::to_string(text.size()) + ":" + std::to_string(fnv(text));
}
// isolation-only workloads (not part of the schedule exploration): a file whose maps carry unknown members with nested values, and the same file cut
// inside such a value (the read fails part-way, inside the skipping of an unknown item)
static std::string unknown_file, unknown_file_cut;
static std::string body_read_path(const std::string& path) {
    std::ifstream f(path, std::ios::binary); std::string text;
    try { CdnsReader r(f); text += r.m_file_preamble.string(); bool eof = false;
          for (;;) { CdnsBlockRead b = r.read_block(eof); if (eof) break; text += b.string(); bool end = false; for (;;) { auto g = b.read_generic_qr(end); if (end) break; text += g.string(); } } }
    catch (std::exception& e) { text += std::string("EXC:") + e.what(); }
    return std::to_string(text.size()) + ":" + std::to_string(fnv(text));
}
static std::string body_blocks(int slot) {   // W6: build blocks directly, copy, serialise (no system call: level 2 / tsan only see it)
    Pools P = make_pools(1000000); BlockParameters bp; CdnsBlock b(bp, 0); for (int i = 0; i < 8; i++) { b.add_question_response_record(rec_of(P, slot, i)); b.add_address_event_count(P.aec[i % 3]); b.add_malformed_message(P.mm[i % 4]); }
    CdnsBlock c(b); c.add_question_response_record(P.qr[3]); std::vector<std::string> outs; { CdnsEncoder e(MemSink{&outs}, CborOutputCompression::NO_COMPRESSION); c.write(e); b.write(e); }
    return std::to_string(outs[0].size()) + ":" + std::to_string(fnv(outs[0]));
}
static const int NBODY = 7, NISO = 9;   // bodies 7, 8 exist for the isolation stage only
static const char* BN[] = {"export-fd-plain", "export-fd-gzip", "export-fd-xz", "export-named-plain", "export-named-gzip", "read-render", "blocks-copy", "read-unknown-members", "read-cut-inside-unknown-member"};
static std::string run_body(int b, int slot) {
    switch (b) { case 0: return body_export_fd(slot, 0); case 1: return body_export_fd(slot, 1); case 2: return body_export_fd(slot, 2); case 3: return body_export_named(slot, 0); case 4: return body_export_named(slot, 1); case 5: return body_read_render(slot); case 7: return body_read_path(unknown_file); case 8: return body_read_path(unknown_file_cut); default: return body_blocks(slot); }
}

// ------------------------------------------------------------------ one controlled run
struct RunOut { std::vector<std::string> digest; std::vector<Point> points; bool diverged; };
static RunOut controlled_run(const std::vector<int>& bodies, const std::vector<int>& prefix, int level) {
    int n = (int)bodies.size(); RunOut out; out.digest.resize(n);
    S.active = true; S.level = level; S.n = n; for (int i = 0; i < 8; i++) S.done[i] = false; S.prefix = prefix; S.pos = 0; S.points.clear(); S.diverged = false;
    RUN = -1;
    std::vector<std::thread> th;
    for (int t = 0; t < n; t++) th.emplace_back([&, t]() {
        TID = t; CLOSES = 0; wait_turn(t);
        std::string d; try { d = run_body(bodies[t], t); } catch (std::exception& e) { d = std::string("EXC:") + e.what(); }
        IN_HOOK = true; out.digest[t] = d; S.done[t] = true;
        int en[8], ne = 0; for (int i = 0; i < n; i++) if (!S.done[i]) en[ne++] = i;
        if (ne == 0) { hand_to(-2); return; }
        int choice = S.pos < S.prefix.size() ? S.prefix[S.pos] : 0; S.pos++; if (choice >= ne) { S.diverged = true; choice = 0; }
        S.points.push_back({t, 'F', ne, choice, false});
        hand_to(en[choice]);
    });
    { // start point: which thread runs first
        int choice = S.pos < S.prefix.size() ? S.prefix[S.pos] : 0; S.pos++; if (choice >= n) { S.diverged = true; choice = 0; }
        S.points.push_back({-1, 'S', n, choice, false}); hand_to(choice); }
    for (auto& t : th) t.join();
    S.active = false; out.points = S.points; out.diverged = S.diverged;
    return out;
}

static std::string prefix_str(const std::vector<int>& bodies, const std::vector<int>& prefix, int level) { std::string s = "level=" + std::to_string(level) + ";bodies="; for (int b : bodies) s += std::to_string(b) + ","; s += ";prefix="; int run = 0; // run-length encode zeros
    for (size_t i = 0; i < prefix.size(); i++) { if (prefix[i] == 0) run++; else { if (run) { s += "z" + std::to_string(run) + ","; run = 0; } s += std::to_string(prefix[i]) + ","; } } if (run) s += "z" + std::to_string(run) + ","; return s; }
static bool parse_prefix(const std::string& s, std::vector<int>& bodies, std::vector<int>& prefix, int& level) {
    if (sscanf(s.c_str(), "level=%d", &level) != 1) return false; size_t p = s.find("bodies="), q = s.find(";prefix="); if (p == std::string::npos || q == std::string::npos) return false;
    std::string b = s.substr(p + 7, q - p - 7), x = s.substr(q + 8); size_t i = 0; while (i < b.size()) { size_t e = b.find(',', i); if (e == std::string::npos) break; bodies.push_back(atoi(b.substr(i, e - i).c_str())); i = e + 1; }
    i = 0; while (i < x.size()) { size_t e = x.find(',', i); if (e == std::string::npos) break; std::string t = x.substr(i, e - i); if (!t.empty() && t[0] == 'z') prefix.insert(prefix.end(), atoi(t.c_str() + 1), 0); else if (!t.empty() && isdigit((unsigned char)t[0])) prefix.push_back(atoi(t.c_str())); i = e + 1; }
    return true;
}

int main(int argc, char** argv) {
    Args a = Args::parse(argc, argv); g_dir = scratch_dir(); Result total; bool T = a.thorough();
    auto done = [&](int rc) { a.finish(total); rm_rf(g_dir); return rc; };
    // the input file of the reading workload is produced in a forked child: until the first workload starts, this process has not executed any library
    // code, so lazily initialised library state is still cold when the free-running pass below starts its threads
    { prepared_file = g_dir + "/prepared.cdns"; fflush(stdout); fflush(stderr); pid_t p = fork(); if (p == 0) { seeds::Opt o; o.sets = {seeds::PS(3, 1000000, 0, true)}; o.blocks = 3; o.per_block = 2; std::string bytes = seeds::make(o); spit(prepared_file, bytes);
        ref::Node root = ref::parse_exact(bytes); ref::Node val = ref::mk_array({ref::mk_uint(1), ref::mk_array({ref::mk_uint(2), ref::mk_map({ref::mk_uint(1), ref::mk_tstr("MARK-INSIDE-UNKNOWN"), ref::mk_uint(2), ref::mk_array({ref::mk_tstr("deep")})})})});
        root.kids[1].kids.insert(root.kids[1].kids.begin(), {ref::mk_uint(200), val}); for (auto& blk : root.kids[2].kids) blk.kids.insert(blk.kids.begin(), {ref::mk_uint(200), val});
        std::string u = ref::encode(root); spit(g_dir + "/unknown.cdns", u); size_t first = u.find("MARK-INSIDE-UNKNOWN"), second = u.find("MARK-INSIDE-UNKNOWN", first + 1); spit(g_dir + "/unknown_cut.cdns", u.substr(0, second + 4));   // cut inside the unknown member of the first block
        _exit(0); } int st = 0; waitpid(p, &st, 0); if (!WIFEXITED(st) || WEXITSTATUS(st) != 0) { fprintf(stderr, "could not prepare the input file\n"); return done(2); } }
    // sequential reference digests (single thread, no scheduler); slot-dependent content, so compute per (body, slot)

#ifdef TSAN_PASS
    // ---- free-running pass under ThreadSanitizer: reports go to stderr / a log file which the parent inspects
    {
        std::string logp = g_dir + "/tsan"; int nviol = 0;
        // rounds 0..R-1: bodies rotated over the threads; rounds 100+b: every thread runs body b (first use of the same lazily built state by all threads at once)
        std::vector<std::pair<int, int>> plan; for (int nt : {2, 4, 8, 16}) for (int round = 0; round < (T ? 12 : 4); round++) plan.push_back({nt, round});
        for (int b = 0; b < NBODY; b++) { plan.push_back({6, 100 + b}); if (T) plan.push_back({16, 100 + b}); }   // 6: more instances of one kind at once than any small per-process pool or quota (4) a library might keep
        for (auto& pl : plan) { int nt = pl.first, round = pl.second;
            fflush(stdout); fflush(stderr); pid_t p = fork();
            if (p == 0) {
                int fd = open((logp + ".log").c_str(), O_WRONLY | O_CREAT | O_TRUNC, 0600); dup2(fd, 2);
                std::vector<std::string> dg(nt), want(nt); std::vector<int> bs(nt);
                for (int t = 0; t < nt; t++) bs[t] = round >= 100 ? round - 100 : (t + round) % NBODY;
                S.free_running = true; S.yield_seed = a.seed * 1000003ULL + nt * 131 + round; std::vector<std::thread> th;
                for (int t = 0; t < nt; t++) th.emplace_back([&, t]() { TID = t; try { dg[t] = run_body(bs[t], t); } catch (std::exception& e) { dg[t] = std::string("EXC:") + e.what(); } });
                for (auto& t : th) t.join();
                S.free_running = false; for (int t = 0; t < nt; t++) want[t] = run_body(bs[t], t);     // sequential reference, same slots - AFTER the threads: the concurrent run is the first use of the library in this process
                for (int t = 0; t < nt; t++) if (dg[t] != want[t]) { fprintf(stderr, "DIGEST-MISMATCH thread %d body %s: %s vs sequential %s\n", t, BN[bs[t]], dg[t].c_str(), want[t].c_str()); fflush(stderr); _exit(3); }
                _exit(0);
            }
            int st = 0; waitpid(p, &st, 0); std::string log = slurp(logp + ".log"); total.count("traces"); total.count("nontrivial"); total.count("tsan_runs");
            if (log.find("ThreadSanitizer") != std::string::npos || !WIFEXITED(st) || WEXITSTATUS(st) != 0) { nviol++; size_t q = log.find("WARNING: ThreadSanitizer"); std::string k = log.find("DIGEST-MISMATCH") != std::string::npos ? "digest-mismatch" : log.find("ThreadSanitizer") != std::string::npos ? "data-race" : "abnormal-exit"; if (q == std::string::npos) q = log.find("DIGEST-MISMATCH"); size_t f = log.find(" in CDNS::"); std::string fr = f == std::string::npos ? "" : log.substr(f + 4, log.find_first_of(" (", f + 4) - f - 4);
                total.violation("sched|tsan|" + k + "|" + fr, "ThreadSanitizer report with " + std::to_string(nt) + " threads: " + log.substr(q == std::string::npos ? 0 : q, 1200), "tsan;threads=" + std::to_string(nt) + ";round=" + std::to_string(round)); }
            total.outcome("tsan-threads-" + std::to_string(nt));
        }
        total.sample("free-running TSan pass: thread counts 2,4,8,16; bodies rotated over threads; yields injected at interposed calls from VERIF_SEED");
        total.n["evaluations"] = total.n["traces"];
        return done(0);
    }
#endif

    unknown_file = g_dir + "/unknown.cdns"; unknown_file_cut = g_dir + "/unknown_cut.cdns";
    std::map<std::pair<int, int>, std::string> refd;
    for (int b = 0; b < NBODY; b++) for (int slot = 0; slot < 3; slot++) { std::string d1 = run_body(b, slot), d2 = run_body(b, slot); if (d1 != d2) { fprintf(stderr, "body %s is not deterministic\n", BN[b]); return done(2); } refd[{b, slot}] = d1; }

    auto check_run = [&](const std::vector<int>& bodies, const std::vector<int>& prefix, int level, const RunOut& x, Result& R, int eintr = -1) {
        std::string rep = prefix_str(bodies, prefix, level) + (eintr >= 0 ? ";eintr=" + std::to_string(eintr) : "");
        if (x.diverged) { R.violation("sched|HARNESS-divergence", "replay of a choice prefix met a smaller enabled set than recorded", rep); return; }
        for (size_t t = 0; t < bodies.size(); t++) if (x.digest[t] != refd[{bodies[t], (int)t}]) {
            R.violation(std::string("sched|digest-differs|") + BN[bodies[t]] + "|with-" + BN[bodies[1 - (t ? 1 : 0)]] + (eintr >= 0 ? "|close-eintr" : ""), std::string("thread ") + std::to_string(t) + " (" + BN[bodies[t]] + ") produced " + x.digest[t].substr(0, 60) + " but sequentially " + refd[{bodies[t], (int)t}].substr(0, 60) + " under schedule " + rep.substr(0, 200), rep);
        }
    };

    if (!a.replay.empty()) { std::string s = slurp(a.replay); std::vector<int> bodies, prefix; int level = 1; if (s.rfind("tsan", 0) == 0) return done(0);
        if (s.rfind("isolation-preamble", 0) == 0) { BlockParameters bp; bp.storage_parameters.max_block_items = 3; BlockParameters extra; extra.storage_parameters.ticks_per_second = 1000; std::vector<BlockParameters> bps = {bp}; FilePreamble fp(bps); std::string fp_before = lib::dump(fp); Pools P = make_pools(1000000); std::vector<std::string> oa, ob, oc;
            { CdnsExporter A(fp, MemSink{&oa}, CborOutputCompression::NO_COMPRESSION), B(fp, MemSink{&ob}, CborOutputCompression::NO_COMPRESSION); A.add_block_parameters(extra); A.buffer_qr(P.qr[0]); A.write_block(); B.buffer_qr(P.qr[3]); B.write_block(); }
            { std::vector<BlockParameters> bps2 = {bp}; FilePreamble fresh(bps2); CdnsExporter C(fresh, MemSink{&oc}, CborOutputCompression::NO_COMPRESSION); C.buffer_qr(P.qr[3]); C.write_block(); }
            if (ob.at(0) != oc.at(0) || lib::dump(fp) != fp_before) total.violation("sched|instance-isolation|shared-preamble|sibling-output", "exporters built from one FilePreamble object are not independent", s); return done(total.viol.empty() ? 0 : 1); }
        if (s.rfind("isolation", 0) == 0) { int x = 0, y = 0; sscanf(s.c_str(), "isolation;x=%d;y=%d", &x, &y); std::string al, d; { std::thread th([&]() { al = run_body(y, 1); }); th.join(); } { std::thread th([&]() { run_body(x, 0); d = run_body(y, 1); }); th.join(); }
            if (d != al) total.violation(std::string("sched|instance-isolation|") + BN[y] + "|after-" + BN[x], "differs from a fresh thread", s); return done(total.viol.empty() ? 0 : 1); } if (!parse_prefix(s, bodies, prefix, level)) return done(2); int ei = -1; { size_t z = s.find(";eintr="); if (z != std::string::npos) ei = atoi(s.c_str() + z + 7); } g_eintr_thread = ei >= 0 ? 0 : -1; g_eintr_index = ei;
        Pool rp(1, 120); rp.run(1, [&](uint64_t, Result& R) { RunOut x1 = controlled_run(bodies, prefix, level), x2 = controlled_run(bodies, prefix, level); if (x1.digest != x2.digest) R.violation("sched|HARNESS-nondeterministic-replay", "same schedule, different digests", s); check_run(bodies, prefix, level, x1, R, ei); R.count("traces"); },
                               [&](uint64_t, const std::string& d, Result& R) { R.violation("sched|" + crash_key(d), d.substr(0, 1500), s); }, total); return done(total.viol.empty() ? 0 : 1); }

    int level = a.kv.count("level") ? atoi(a.kv["level"].c_str()) : 1;
    if (level == 1 && a.replay.empty()) {
        // instance isolation ("the library keeps no shared mutable state"): workload X followed by workload Y on ONE fresh thread; Y must give what it gives on
        // a thread that did nothing before - also when X failed part-way. State kept per thread is shared between independent instances too.
        std::map<int, std::string> alone; for (int y = 0; y < NISO; y++) { std::thread th([&]() { alone[y] = run_body(y, 1); }); th.join(); }
        for (int x = 0; x < NISO; x++) for (int y = 0; y < NISO; y++) { std::string d; std::thread th([&]() { run_body(x, 0); d = run_body(y, 1); }); th.join(); total.count("traces"); total.count("nontrivial"); total.count("isolation_runs");
            if (d != alone[y]) total.violation(std::string("sched|instance-isolation|") + BN[y] + "|after-" + BN[x], std::string("workload ") + BN[y] + " gives " + d.substr(0, 50) + " on a thread that ran " + BN[x] + " before, but " + alone[y].substr(0, 50) + " on a fresh thread", "isolation;x=" + std::to_string(x) + ";y=" + std::to_string(y)); }
        // two exporters constructed from ONE FilePreamble object: each owns its copy. What one of them does to its parameters must reach neither its sibling nor the caller's object.
        { BlockParameters bp; bp.storage_parameters.max_block_items = 3; BlockParameters extra; extra.storage_parameters.ticks_per_second = 1000; std::vector<BlockParameters> bps = {bp}; FilePreamble fp(bps); std::string fp_before = lib::dump(fp);
          Pools P = make_pools(1000000); std::vector<std::string> oa, ob, oc;
          { CdnsExporter A(fp, MemSink{&oa}, CborOutputCompression::NO_COMPRESSION), B(fp, MemSink{&ob}, CborOutputCompression::NO_COMPRESSION);
            A.add_block_parameters(extra); A.get_active_block_parameters_ref().storage_parameters.max_block_items = 7; A.buffer_qr(P.qr[0]); A.write_block(); B.buffer_qr(P.qr[3]); B.write_block(); }
          { std::vector<BlockParameters> bps2 = {bp}; FilePreamble fresh(bps2); CdnsExporter C(fresh, MemSink{&oc}, CborOutputCompression::NO_COMPRESSION); C.buffer_qr(P.qr[3]); C.write_block(); }
          total.count("traces"); total.count("nontrivial"); total.count("isolation_runs");
          if (ob.at(0) != oc.at(0)) total.violation("sched|instance-isolation|shared-preamble|sibling-output", "an exporter built from the same FilePreamble object as another one writes " + std::to_string(ob[0].size()) + " bytes, but " + std::to_string(oc[0].size()) + " bytes when built from its own equal preamble (the sibling had added a parameter set)", "isolation-preamble");
          if (lib::dump(fp) != fp_before) total.violation("sched|instance-isolation|shared-preamble|callers-object", "the caller's FilePreamble changed after an exporter constructed from it modified its own parameters", "isolation-preamble"); }
        total.sample("instance isolation: 81 ordered pairs of 9 workloads, each pair on one fresh thread; two exporters built from one FilePreamble object");
    }
    struct Task { std::vector<int> bodies; int i0; int eintr = -1; };
    std::vector<Task> tasks;
    if (level == 1) {
        // i0 = preemption bound of the task. quick: all pairs, 2 preemptions. thorough adds: a body with itself, 3 preemptions; triples, 2 preemptions.
        for (int x = 0; x < NBODY; x++) for (int y = x; y < NBODY; y++) tasks.push_back({{x, y}, 2});
        if (T) { static const int TB[] = {0, 1, 3, 4, 5};   // triples without the xz body (its encoder setup dominates the run time) and without the call-free body
                 for (int x = 0; x < 5; x++) for (int y = x; y < 5; y++) for (int z = y; z < 5; z++) tasks.push_back({{TB[x], TB[y], TB[z]}, 2});
                 for (int x : {0, 1, 3, 4, 5, 6}) tasks.push_back({{x, x}, 3}); }
        // environment deviation: the k-th close() of thread 0 reports EINTR (the descriptor is released all the same); <= 1 preemption
        // (two preemptions are the minimum for interference: away from the closing thread, and back to it before the other thread is done)
        for (int x = 0; x < 5; x++) for (int y = 0; y < 6; y++) for (int k = 0; k < 3; k++) { bool core = x <= 2 && k == 0 && (y == 0 || y == 3 || y == 5); if (!T && !core) continue; Task t{{x, y}, 2}; t.eintr = k; tasks.push_back(t); }
        Pool pool(a.jobs, 0);   // the watchdog is armed per schedule below (a task explores thousands of schedules)
        // sequential digests under the same injected EINTR (harmless when nothing runs in between)
        std::map<std::pair<int, int>, std::string> refd_eintr;
        for (int x = 0; x < 5; x++) for (int k = 0; k < 3; k++) { g_eintr_thread = 0; g_eintr_index = k; std::thread th([&]() { TID = 0; CLOSES = 0; refd_eintr[{x, k}] = run_body(x, 0); TID = -1; }); th.join(); g_eintr_thread = -1; }
        pool.run(tasks.size(), [&](uint64_t ti, Result& R) {
            const Task& t = tasks[ti]; int bound = t.i0; uint64_t nsched = 0; std::set<std::string> seen_digest;
            g_eintr_thread = t.eintr >= 0 ? 0 : -1; g_eintr_index = t.eintr;
            if (t.eintr >= 0 && refd_eintr[{t.bodies[0], t.eintr}] != refd[{t.bodies[0], 0}]) R.violation(std::string("sched|eintr-sequential|") + BN[t.bodies[0]], "a close() reporting EINTR changes the sequential result", "level=1;bodies=" + std::to_string(t.bodies[0]) + ",;prefix=;eintr=" + std::to_string(t.eintr));
            std::function<void(const std::vector<int>&)> explore = [&](const std::vector<int>& prefix) {
                if (a.expired()) { R.deadline_hit = true; return; }
                set_note(prefix_str(t.bodies, prefix, 1) + (t.eintr >= 0 ? ";eintr=" + std::to_string(t.eintr) : ""));
                alarm(120); RunOut x = controlled_run(t.bodies, prefix, 1); alarm(0); nsched++; R.count("traces"); R.count("transitions", x.points.size());
                check_run(t.bodies, prefix, 1, x, R, t.eintr);
                int cost = 0; std::vector<int> choices; for (auto& p : x.points) choices.push_back(p.choice);
                std::vector<int> costs(x.points.size() + 1, 0); for (size_t i = 0; i < x.points.size(); i++) costs[i + 1] = costs[i] + ((x.points[i].running_enabled && x.points[i].choice != 0) ? 1 : 0);
                (void)cost;
                for (size_t i = prefix.size(); i < x.points.size(); i++) {
                    const Point& p = x.points[i]; int c = costs[i] + (p.running_enabled ? 1 : 0); if (c > bound) continue;
                    for (int alt = 1; alt < p.nenabled; alt++) { std::vector<int> np(choices.begin(), choices.begin() + i); np.push_back(alt); explore(np); }
                }
            };
            explore({});
            R.count("states"); R.count("nontrivial", nsched > 1 ? nsched - 1 : 0);
            std::string nm; for (int b : t.bodies) nm += std::string(BN[b]) + "+"; R.outcome(nm + ":schedules=" + std::to_string(nsched));
            R.sample("bodies " + nm + " preemption bound " + std::to_string(bound) + ": " + std::to_string(nsched) + " schedules");
        }, [&](uint64_t, const std::string& d, Result& R) { R.violation("sched|" + crash_key(d), "crash under schedule " + pool.last_note + ": " + d.substr(0, 1200), pool.last_note); }, total);
    } else {
        // level 2: ordered pairs, single preemption at every function boundary of A
        std::vector<std::pair<int, int>> pairs; for (int x = 0; x < NBODY; x++) for (int y = 0; y < NBODY; y++) pairs.push_back({x, y});
        // first discover N(A) per pair with the default schedule, then split the index range into chunks
        struct T2 { int a, b; size_t lo, hi; };
        std::vector<T2> t2;
        for (auto& pr : pairs) { RunOut x = controlled_run({pr.first, pr.second}, {0}, 2); size_t NA = 0; for (auto& p : x.points) if (p.tid == 0 && p.kind != 'F') NA++; size_t step = T ? 1 : 1; (void)step; size_t chunk = 400; for (size_t lo = 0; lo < NA; lo += chunk) t2.push_back({pr.first, pr.second, lo, std::min(NA, lo + chunk)}); }   // preempt A at its point #i+1, i in [0, NA)
        size_t stride = T ? 1 : 7;
        Pool pool(a.jobs, 0);
        pool.run(t2.size(), [&](uint64_t ti, Result& R) {
            const T2& t = t2[ti];
            for (size_t i = t.lo; i < t.hi; i += stride) {
                if (a.expired()) { R.deadline_hit = true; return; }
                std::vector<int> prefix; prefix.push_back(0); prefix.insert(prefix.end(), i, 0); prefix.push_back(1);
                set_note(prefix_str({t.a, t.b}, prefix, 2));
                alarm(120); RunOut x = controlled_run({t.a, t.b}, prefix, 2); alarm(0); R.count("traces"); R.count("nontrivial"); R.count("transitions", x.points.size());
                check_run({t.a, t.b}, prefix, 2, x, R);
            }
            R.count("states"); R.outcome(std::string(BN[t.a]) + ">" + BN[t.b]);
            if (ti % 29 == 0) R.sample(std::string("A=") + BN[t.a] + " preempted at function-boundary points " + std::to_string(t.lo) + ".." + std::to_string(t.hi) + " (stride " + std::to_string(stride) + "), B=" + BN[t.b] + " runs to completion");
        }, [&](uint64_t, const std::string& d, Result& R) { R.violation("sched|" + crash_key(d), "crash under schedule " + pool.last_note + ": " + d.substr(0, 1200), pool.last_note); }, total);
    }
    total.n["evaluations"] = total.n["traces"];
    return done(0);
}
