// Adapter between the library under test and the canonical dump format of ref/cdns.hpp.
// MemSink = user specialisation of CDNS::Writer<T> (documented extension point in writer.h).
#pragma once
#include <vector>
#include <string>
#include <sstream>
#include <memory>

struct MemSink { std::vector<std::string>* outs; };

#include "writer.h"
namespace CDNS {
template<> class Writer<MemSink> : public BaseCborOutputWriter {
public:
    Writer(const MemSink& v, const std::string extension = "") : m_value(v) { m_value.outs->emplace_back(); }
    Writer(Writer&) = delete; Writer(Writer&&) = delete;
    void write(const char* p, std::size_t size) override { m_value.outs->back().append(p, size); }
    void rotate_output(const boost::any& value) override {
        if (value.type() != typeid(MemSink)) return;
        m_value = boost::any_cast<MemSink>(value); m_value.outs->emplace_back();
    }
protected:
    MemSink m_value;
};
}
#include "cdns.h"
#include "../ref/cdns.hpp"

namespace lib {
using ref::hex;

inline std::string ts_s(const CDNS::Timestamp& t) { return std::to_string(t.m_secs) + "." + std::to_string(t.m_ticks); }

inline std::string rr_list(const std::vector<CDNS::GenericResourceRecord>& l, bool question) {
    std::string s = "[";
    for (auto& r : l) {
        s += hex(r.name) + "/" + std::to_string(r.classtype.type) + "/" + std::to_string(r.classtype.class_);
        if (!question) { s += "/"; s += r.ttl ? std::to_string(*r.ttl) : "-"; s += "/"; s += r.rdata ? hex(*r.rdata) : "-"; }
        s += ",";
    }
    return s + "]";
}

// canonical dump of a generic query/response, same field order and format as ref::Interp
inline std::string dump(const CDNS::GenericQueryResponse& g) {
    std::ostringstream o;
    if (g.ts) o << "ts=" << ts_s(*g.ts) << ";";
    if (g.client_ip) o << "cip=" << hex(*g.client_ip) << ";";
    if (g.client_port) o << "cport=" << *g.client_port << ";";
    if (g.transaction_id) o << "txid=" << *g.transaction_id << ";";
    if (g.server_ip) o << "sip=" << hex(*g.server_ip) << ";";
    if (g.server_port) o << "sport=" << *g.server_port << ";";
    if (g.qr_transport_flags) o << "tf=" << (unsigned)*g.qr_transport_flags << ";";
    if (g.qr_type) o << "qrtype=" << (unsigned)*g.qr_type << ";";
    if (g.qr_sig_flags) o << "sigflags=" << (unsigned)*g.qr_sig_flags << ";";
    if (g.query_opcode) o << "opcode=" << (unsigned)*g.query_opcode << ";";
    if (g.qr_dns_flags) o << "dnsflags=" << (unsigned)*g.qr_dns_flags << ";";
    if (g.query_rcode) o << "qrcode=" << *g.query_rcode << ";";
    if (g.query_classtype) o << "qct=" << g.query_classtype->type << "/" << g.query_classtype->class_ << ";";
    if (g.query_qdcount) o << "qd=" << *g.query_qdcount << ";";
    if (g.query_ancount) o << "an=" << *g.query_ancount << ";";
    if (g.query_nscount) o << "ns=" << *g.query_nscount << ";";
    if (g.query_arcount) o << "ar=" << *g.query_arcount << ";";
    if (g.query_edns_version) o << "edns=" << (unsigned)*g.query_edns_version << ";";
    if (g.query_udp_size) o << "udp=" << *g.query_udp_size << ";";
    if (g.query_opt_rdata) o << "opt=" << hex(*g.query_opt_rdata) << ";";
    if (g.response_rcode) o << "rrcode=" << *g.response_rcode << ";";
    if (g.client_hoplimit) o << "hop=" << (unsigned)*g.client_hoplimit << ";";
    if (g.response_delay) o << "delay=" << *g.response_delay << ";";
    if (g.query_name) o << "qname=" << hex(*g.query_name) << ";";
    if (g.query_size) o << "qsize=" << *g.query_size << ";";
    if (g.response_size) o << "rsize=" << *g.response_size << ";";
    if (g.bailiwick) o << "bail=" << hex(*g.bailiwick) << ";";
    if (g.processing_flags) o << "pflags=" << (unsigned)*g.processing_flags << ";";
    if (g.query_questions && !g.query_questions->empty()) o << "qq=" << rr_list(*g.query_questions, true) << ";";
    if (g.query_answers && !g.query_answers->empty()) o << "qan=" << rr_list(*g.query_answers, false) << ";";
    if (g.query_authority && !g.query_authority->empty()) o << "qau=" << rr_list(*g.query_authority, false) << ";";
    if (g.query_additional && !g.query_additional->empty()) o << "qad=" << rr_list(*g.query_additional, false) << ";";
    if (g.response_questions && !g.response_questions->empty()) o << "rq=" << rr_list(*g.response_questions, true) << ";";
    if (g.response_answers && !g.response_answers->empty()) o << "ran=" << rr_list(*g.response_answers, false) << ";";
    if (g.response_authority && !g.response_authority->empty()) o << "rau=" << rr_list(*g.response_authority, false) << ";";
    if (g.response_additional && !g.response_additional->empty()) o << "rad=" << rr_list(*g.response_additional, false) << ";";
    if (g.asn) o << "asn=" << hex(*g.asn) << ";";
    if (g.country_code) o << "cc=" << hex(*g.country_code) << ";";
    if (g.round_trip_time) o << "rtt=" << *g.round_trip_time << ";";
    return o.str();
}

inline std::string dump(const CDNS::GenericMalformedMessage& g) {
    std::ostringstream o;
    if (g.ts) o << "ts=" << ts_s(*g.ts) << ";";
    if (g.client_ip) o << "cip=" << hex(*g.client_ip) << ";";
    if (g.client_port) o << "cport=" << *g.client_port << ";";
    if (g.server_ip) o << "sip=" << hex(*g.server_ip) << ";";
    if (g.server_port) o << "sport=" << *g.server_port << ";";
    if (g.mm_transport_flags) o << "tf=" << (unsigned)*g.mm_transport_flags << ";";
    if (g.mm_payload) o << "payload=" << hex(*g.mm_payload) << ";";
    return o.str();
}

inline std::string aec_key(const CDNS::GenericAddressEventCount& a) {
    return "type=" + std::to_string((unsigned)a.ae_type) + ";code=" + (a.ae_code ? std::to_string((unsigned)*a.ae_code) : "-") +
           ";tf=" + (a.ae_transport_flags ? std::to_string((unsigned)*a.ae_transport_flags) : "-") + ";ip=" + hex(a.ip_address);
}

inline std::string dump(const boost::optional<CDNS::BlockStatistics>& s) {
    if (!s) return "-";
    std::string o = "{";
    if (s->processed_messages) o += "pm=" + std::to_string(*s->processed_messages) + ";";
    if (s->qr_data_items) o += "qr=" + std::to_string(*s->qr_data_items) + ";";
    if (s->unmatched_queries) o += "uq=" + std::to_string(*s->unmatched_queries) + ";";
    if (s->unmatched_responses) o += "ur=" + std::to_string(*s->unmatched_responses) + ";";
    if (s->discarded_opcode) o += "do=" + std::to_string(*s->discarded_opcode) + ";";
    if (s->malformed_items) o += "mi=" + std::to_string(*s->malformed_items) + ";";
    return o + "}";
}

inline std::string dump(const CDNS::StorageParameters& p) {
    std::ostringstream o; o << "sp{tps=" << p.ticks_per_second << ";mbi=" << p.max_block_items << ";hints=" << p.storage_hints.query_response_hints << ","
      << p.storage_hints.query_response_signature_hints << "," << (unsigned)p.storage_hints.rr_hints << "," << (unsigned)p.storage_hints.other_data_hints << ";opcodes=[";
    for (auto c : p.opcodes) o << (unsigned)c << ",";
    o << "];rrtypes=[";
    for (auto c : p.rr_types) o << (unsigned)c << ",";
    o << "];";
    if (p.storage_flags) o << "sf=" << (unsigned)*p.storage_flags << ";";
    if (p.client_address_prefix_ipv4) o << "c4=" << (unsigned)*p.client_address_prefix_ipv4 << ";";
    if (p.client_address_prefix_ipv6) o << "c6=" << (unsigned)*p.client_address_prefix_ipv6 << ";";
    if (p.server_address_prefix_ipv4) o << "s4=" << (unsigned)*p.server_address_prefix_ipv4 << ";";
    if (p.server_address_prefix_ipv6) o << "s6=" << (unsigned)*p.server_address_prefix_ipv6 << ";";
    if (p.sampling_method) o << "sm=" << hex(*p.sampling_method) << ";";
    if (p.anonymization_method) o << "am=" << hex(*p.anonymization_method) << ";";
    o << "}";
    return o.str();
}
inline std::string dump(const boost::optional<CDNS::CollectionParameters>& c) {
    if (!c) return "cp-";
    std::ostringstream o; o << "cp{";
    if (c->query_timeout) o << "qt=" << *c->query_timeout << ";";
    if (c->skew_timeout) o << "st=" << *c->skew_timeout << ";";
    if (c->snaplen) o << "snap=" << *c->snaplen << ";";
    if (c->promisc) o << "promisc=" << (*c->promisc ? 1 : 0) << ";";
    if (!c->interfaces.empty()) { o << "ifs=["; for (auto& s : c->interfaces) o << hex(s) << ","; o << "];"; }
    if (!c->server_address.empty()) { o << "srv=["; for (auto& s : c->server_address) o << hex(s) << ","; o << "];"; }
    if (!c->vlan_ids.empty()) { o << "vlan=["; for (auto v : c->vlan_ids) o << v << ","; o << "];"; }
    if (c->filter) o << "filter=" << hex(*c->filter) << ";";
    if (c->generator_id) o << "gen=" << hex(*c->generator_id) << ";";
    if (c->host_id) o << "host=" << hex(*c->host_id) << ";";
    o << "}";
    return o.str();
}
inline std::string dump(const CDNS::BlockParameters& b) { return dump(b.storage_parameters) + ";" + dump(b.collection_parameters); }
inline std::string dump(const CDNS::FilePreamble& f) {
    std::ostringstream o;
    o << "maj=" << (unsigned)f.m_major_format_version << ";min=" << (unsigned)f.m_minor_format_version << ";priv="
      << (f.m_private_version ? std::to_string((unsigned)*f.m_private_version) : "-");
    for (size_t i = 0; i < f.m_block_parameters.size(); i++) o << ";bp[" << i << "]{" << dump(f.m_block_parameters[i]) << "}";
    return o.str();
}

// Dump of one block as the library's reader presents it through read_generic_*.
inline std::string block_dump(CDNS::CdnsBlockRead& b) {
    std::ostringstream o;
    o << "bpi=" << b.get_block_parameters_index() << ";stats=" << dump(b.m_block_statistics) << ";QR[";
    bool end = false;
    for (;;) { auto g = b.read_generic_qr(end); if (end) break; o << "{" << dump(g) << "}"; }
    o << "];AEC[";
    std::map<std::string, uint64_t> a;
    for (;;) { auto g = b.read_generic_aec(end); if (end) break; a[aec_key(g)] += g.ae_count; }
    for (auto& x : a) o << "{" << x.first << ";n=" << x.second << "}";
    o << "];MM[";
    for (;;) { auto g = b.read_generic_mm(end); if (end) break; o << "{" << dump(g) << "}"; }
    o << "]";
    return o.str();
}

struct LibFile {
    bool header_ok = false; std::string preamble; std::vector<std::string> blocks;
    std::string end;      // "eof" | "end:<what>" (CdnsDecoderEnd) | "exc:<what>" (other std::exception)
};

inline LibFile read_stream(std::istream& is, size_t max_blocks = 1u << 30) {
    LibFile f;
    try {
        CDNS::CdnsReader r(is);
        f.header_ok = true; f.preamble = dump(r.m_file_preamble);
        bool eof = false;
        while (f.blocks.size() < max_blocks) {
            CDNS::CdnsBlockRead b = r.read_block(eof);
            if (eof) { f.end = "eof"; break; }
            f.blocks.push_back(block_dump(b));
        }
    } catch (CDNS::CdnsDecoderEnd& e) { f.end = std::string("end:") + e.what(); }
    catch (std::exception& e) { f.end = std::string("exc:") + e.what(); }
    return f;
}
inline LibFile read_bytes(const std::string& bytes) { std::istringstream is(bytes); return read_stream(is); }

inline std::string file_dump(const LibFile& f) {
    std::string s = (f.header_ok ? "P{" + f.preamble + "}" : std::string("P-"));
    for (auto& b : f.blocks) s += "|B{" + b + "}";
    return s + "|" + f.end;
}
inline std::string file_dump(const ref::RFile& f) {
    std::string s = "P{" + f.preamble + "}";
    for (auto& b : f.blocks) s += "|B{" + ref::block_dump(b) + "}";
    return s + "|eof";
}

} // namespace lib
