// E-ENC: exhaustive exploration of the CBOR encoder's state space (C06, C10a).
// State = fill level of the 2 KiB staging buffer; transitions = the 18 public write operations.
#include "util.hpp"
#include "libdump.hpp"
#include <zlib.h>
#include <lzma.h>
using namespace vh;

enum Kind { ARR, IARR, MAP, IMAP, BSTRP, BSTRS, TSTRP, TSTRS, BRK, BOOL, U8, U16, U32, U64, I8, I16, I32, I64, NKIND };
static const char* KN[] = {"array", "indef_array", "map", "indef_map", "bstr_ptr", "bstr_str", "tstr_ptr", "tstr_str", "break", "bool",
                           "u8", "u16", "u32", "u64", "i8", "i16", "i32", "i64"};
struct Op { int k; uint64_t a; };   // a: value (two's complement for signed) or length/count

// string content: periodic for the first 64 calls of a trace, pseudo-random (incompressible) afterwards - only the long traces of stage 7 get that far,
// and a compressing output has to emit while they are still being written
static std::string pat(size_t n, unsigned salt) { std::string s(n, 0);
    if (salt >= 64) { uint64_t x = 88172645463325252ULL ^ ((uint64_t)salt * 0x9e3779b97f4a7c15ULL); for (size_t i = 0; i < n; i++) { x ^= x << 13; x ^= x >> 7; x ^= x << 17; s[i] = (char)(x >> 23); } return s; }
    for (size_t i = 0; i < n; i++) s[i] = (char)((i * 131 + 7 + salt * 29) & 0xff); return s; }

static std::string expected(const Op& o, unsigned salt) {
    using ref::pref_head;
    switch (o.k) {
    case ARR: return pref_head(4, o.a); case MAP: return pref_head(5, o.a);
    case IARR: return "\x9f"; case IMAP: return "\xbf"; case BRK: return "\xff";
    case BSTRP: case BSTRS: return pref_head(2, o.a) + pat(o.a, salt);
    case TSTRP: case TSTRS: return pref_head(3, o.a) + pat(o.a, salt);
    case BOOL: return o.a ? "\xf5" : "\xf4";
    case U8: case U16: case U32: case U64: return pref_head(0, o.a);
    default: { int64_t v = (int64_t)o.a; return v >= 0 ? pref_head(0, (uint64_t)v) : pref_head(1, ~(uint64_t)v); }
    }
}

static size_t apply(CDNS::CdnsEncoder& e, const Op& o, unsigned salt) {
    switch (o.k) {
    case ARR: return e.write_array_start(o.a); case MAP: return e.write_map_start(o.a);
    case IARR: return e.write_indef_array_start(); case IMAP: return e.write_indef_map_start(); case BRK: return e.write_break();
    case BSTRP: { std::string s = pat(o.a, salt); return e.write_bytestring((const unsigned char*)s.data(), s.size()); }
    case BSTRS: return e.write_bytestring(pat(o.a, salt));
    case TSTRP: { std::string s = pat(o.a, salt); return e.write_textstring((const unsigned char*)s.data(), s.size()); }
    case TSTRS: return e.write_textstring(pat(o.a, salt));
    case BOOL: return e.write((bool)o.a);
    case U8: return e.write((uint8_t)o.a); case U16: return e.write((uint16_t)o.a); case U32: return e.write((uint32_t)o.a); case U64: return e.write((uint64_t)o.a);
    case I8: return e.write((int8_t)(int64_t)o.a); case I16: return e.write((int16_t)(int64_t)o.a); case I32: return e.write((int32_t)(int64_t)o.a);
    default: return e.write((int64_t)o.a);
    }
}

// filler ops that bring an empty encoder to fill level f
static std::vector<Op> filler(unsigned f) {
    std::vector<Op> v;
    if (f == 0) return v;
    if (f <= 24) v.push_back({BSTRS, f - 1});
    else if (f == 25) { v.push_back({BSTRS, 23}); v.push_back({U8, 0}); }
    else if (f <= 257) v.push_back({BSTRS, f - 2});
    else if (f == 258) { v.push_back({BSTRS, 255}); v.push_back({U8, 0}); }
    else v.push_back({BSTRS, f - 3});
    return v;
}

static std::string ops_str(unsigned f, const std::vector<Op>& ops) {
    std::string s = "f=" + std::to_string(f) + ";ops=";
    for (auto& o : ops) s += std::string(KN[o.k]) + ":" + std::to_string(o.a) + ",";
    return s;
}

static std::string gunzip(const std::string& z) {
    z_stream s; memset(&s, 0, sizeof s); if (inflateInit2(&s, 31) != Z_OK) return "<inflateInit>";
    std::string out; s.next_in = (Bytef*)z.data(); s.avail_in = z.size(); char buf[65536]; int r;
    do { s.next_out = (Bytef*)buf; s.avail_out = sizeof buf; r = inflate(&s, Z_NO_FLUSH); out.append(buf, sizeof buf - s.avail_out); } while (r == Z_OK);
    inflateEnd(&s); if (r != Z_STREAM_END || s.avail_in != 0) return "<bad gzip stream>";
    return out;
}

static std::string unxz(const std::string& z) {
    lzma_stream s = LZMA_STREAM_INIT; if (lzma_stream_decoder(&s, UINT64_MAX, 0) != LZMA_OK) return "<lzma init>";
    std::string out; s.next_in = (const uint8_t*)z.data(); s.avail_in = z.size(); char buf[65536]; lzma_ret r;
    do { s.next_out = (uint8_t*)buf; s.avail_out = sizeof buf; r = lzma_code(&s, LZMA_FINISH); out.append(buf, sizeof buf - s.avail_out); } while (r == LZMA_OK);
    lzma_end(&s); if (r != LZMA_STREAM_END || s.avail_in != 0) return "<bad xz stream>";
    return out;
}
enum SinkKind { MEM, FD, NAMED, GZMEM, XZMEM, FDS };   // FDS: a descriptor whose write(2) transfers at most g_wcap bytes per call (a legal answer of the operating system)
#include <sys/syscall.h>
static size_t g_wcap = 0; static uint64_t g_short_writes = 0;
extern "C" ssize_t write(int fd, const void* buf, size_t n) { if (g_wcap && fd > 2 && n > g_wcap) { g_short_writes++; n = g_wcap; } return syscall(SYS_write, fd, buf, n); }
static std::string g_dir;

// run one trace: filler(f) then ops; returns "" if ok else description. key receives the op kind blamed.
static std::string run_trace(unsigned f, const std::vector<Op>& ops, int sink, Result& r, std::string& key) {
    std::vector<std::string> outs; std::string exp; std::string got; std::string why;
    std::vector<Op> fill = filler(f);
    std::string path = g_dir + "/o" + std::to_string(getpid());
    int fd = -1;
    {
        std::unique_ptr<CDNS::CdnsEncoder> e;
        if (sink == MEM) e.reset(new CDNS::CdnsEncoder(MemSink{&outs}, CDNS::CborOutputCompression::NO_COMPRESSION));
        else if (sink == GZMEM) e.reset(new CDNS::CdnsEncoder(MemSink{&outs}, CDNS::CborOutputCompression::GZIP));
        else if (sink == XZMEM) e.reset(new CDNS::CdnsEncoder(MemSink{&outs}, CDNS::CborOutputCompression::XZ));
        else if (sink == FD || sink == FDS) { fd = open(path.c_str(), O_WRONLY | O_CREAT | O_TRUNC, 0600); e.reset(new CDNS::CdnsEncoder(fd, CDNS::CborOutputCompression::NO_COMPRESSION)); if (sink == FDS) g_wcap = ops.size() > 100 ? 1000 : 7; }
        else e.reset(new CDNS::CdnsEncoder(path, CDNS::CborOutputCompression::NO_COMPRESSION));
        unsigned salt = 0;
        for (auto& o : fill) { apply(*e, o, salt); exp += expected(o, salt); salt++; }
        // fill level read back through the private members when they exist under these names (diagnostic; the verdict is the output bytes)
        long lvl = PEEK(*e, (long)(o.m_p - o.m_buffer), -1L); long av = PEEK(*e, (long)o.m_avail, -1L);
        if (lvl >= 0) {
            if ((size_t)lvl != f % 2048 && !(f == 2048 && lvl == 2048)) { key = "filler"; return "filler did not reach fill level " + std::to_string(f) + " (got " + std::to_string(lvl) + ")"; }
            if (av >= 0 && av != 2048 - lvl) { key = "avail"; return "m_avail inconsistent with fill level"; }
            r.count("fill_levels_confirmed");
        }
        r.count("states_visited");
        for (auto& o : ops) {
            std::string x = expected(o, salt);
            size_t ret = apply(*e, o, salt); salt++;
            r.count("transitions");
            if (ret != x.size() && why.empty()) { key = std::string("return|") + KN[o.k]; why = std::string("return value of ") + KN[o.k] + "(" + std::to_string(o.a) + ") is " + std::to_string(ret) + ", bytes of preferred encoding " + std::to_string(x.size()); }
            exp += x;
            long l2 = PEEK(*e, (long)(o.m_p - o.m_buffer), -1L), a2 = PEEK(*e, (long)o.m_avail, -1L);
            if (l2 >= 0 && a2 >= 0 && (l2 > 2048 || a2 != 2048 - l2) && why.empty()) { key = std::string("avail|") + KN[o.k]; why = "buffer bookkeeping inconsistent after " + std::string(KN[o.k]); }
        }
    } // destroy -> flush
    if (sink == FDS) { g_wcap = 0; r.count("short_writes", g_short_writes); g_short_writes = 0; }
    if (sink == MEM) got = outs.empty() ? "" : outs[0];
    else if (sink == GZMEM) got = gunzip(outs.empty() ? "" : outs[0]);
    else if (sink == XZMEM) got = unxz(outs.empty() ? "" : outs[0]);
    else if (sink == FD || sink == FDS) { got = slurp(path); unlink(path.c_str()); }
    else { got = slurp(path); unlink(path.c_str()); }
    if (!why.empty()) return why;
    if (got != exp) {
        // blame the first op whose encoding window differs
        size_t p = 0; while (p < got.size() && p < exp.size() && got[p] == exp[p]) p++;
        size_t acc = 0; unsigned salt = 0; std::string blame = "filler";
        for (auto& o : fill) { acc += expected(o, salt++).size(); }
        if (p >= acc) for (auto& o : ops) { acc += expected(o, salt++).size(); blame = KN[o.k]; if (p < acc) break; }
        key = "bytes|" + blame;
        return "output differs from concatenated preferred encodings at byte " + std::to_string(p) + " (got " + std::to_string(got.size()) + " bytes, expected " + std::to_string(exp.size()) + "); sink=" + std::to_string(sink);
    }
    return "";
}

static void check_trace(unsigned f, const std::vector<Op>& ops, int sink, Result& r) {
    set_note("sink=" + std::to_string(sink) + ";" + ops_str(f, ops));   // a crash (sanitizer report) is attributed to this trace and replays from it
    std::string key; std::string why = run_trace(f, ops, sink, r, key);
    r.count("traces");
    if (!why.empty()) r.violation("enc|" + key, why, "sink=" + std::to_string(sink) + ";" + ops_str(f, ops));
}

// width boundaries, plus values whose bytes are all different at every head width (a head assembled with two bytes transposed is invisible to 2^k and 2^k-1)
static std::vector<uint64_t> bounds() { return {0, 1, 23, 24, 255, 256, 65535, 65536, 0xffffffffULL, 0x100000000ULL, 0x7fffffffffffffffULL, 0x8000000000000000ULL, 0xffffffffffffffffULL,
                                                0x0102ULL, 0xfe01ULL, 0x01020304ULL, 0xfedcba98ULL, 0x0102030405060708ULL, 0x0807060504030201ULL, 0xfedcba9876543210ULL, 0x7a6b5c4d3e2f1a0bULL, 0x010000000000ULL, 0x01000000000000ULL}; }

// argument classes per kind (in range for the overload)
static std::vector<Op> alphabet(unsigned f, bool small) {
    std::vector<Op> v;
    for (uint64_t b : bounds()) { v.push_back({ARR, b}); v.push_back({MAP, b}); v.push_back({U64, b}); if (b <= 0xffffffffULL) v.push_back({U32, b}); if (b <= 0xffff) v.push_back({U16, b}); if (b <= 0xff) v.push_back({U8, b}); }
    for (int64_t s : std::vector<int64_t>{INT64_MIN, INT64_MIN + 1, -(int64_t)0x100000001LL, -(int64_t)0x100000000LL, -(int64_t)0xffffffffLL, -65537LL, -65536LL, -257LL, -256LL, -255LL, -25LL, -24LL, -23LL, -1LL, 0LL, 1LL, 23LL, 24LL, 255LL, 256LL, 65535LL, 65536LL, (int64_t)0xffffffffLL, (int64_t)0x100000000LL, INT64_MAX}) {
        v.push_back({I64, (uint64_t)s});
        if (s >= INT32_MIN && s <= INT32_MAX) v.push_back({I32, (uint64_t)s});
        if (s >= INT16_MIN && s <= INT16_MAX) v.push_back({I16, (uint64_t)s});
        if (s >= INT8_MIN && s <= INT8_MAX) v.push_back({I8, (uint64_t)s});
    }
    v.push_back({I32, (uint64_t)(int64_t)INT32_MIN}); v.push_back({I32, (uint64_t)(int64_t)INT32_MAX});
    v.push_back({I16, (uint64_t)(int64_t)INT16_MIN}); v.push_back({I16, (uint64_t)(int64_t)INT16_MAX});
    v.push_back({I8, (uint64_t)(int64_t)INT8_MIN}); v.push_back({I8, (uint64_t)(int64_t)INT8_MAX});
    v.push_back({BOOL, 0}); v.push_back({BOOL, 1}); v.push_back({BRK, 0}); v.push_back({IARR, 0}); v.push_back({IMAP, 0});
    std::set<uint64_t> lens = {0, 1, 23, 24, 255, 256, 2048, 2049, 4096, 6145};
    for (int d = -12; d <= 3; d++) { int64_t l = 2048 - (int64_t)f + d; if (l >= 0) lens.insert((uint64_t)l); }
    if (small) lens = {0, 1, 24, (uint64_t)std::max<int64_t>(0, 2047 - (int64_t)f), 2049};
    for (uint64_t l : lens) for (int k : {BSTRP, BSTRS, TSTRP, TSTRS}) { if (small && (k == BSTRP || k == TSTRS)) continue; v.push_back({k, l}); }
    return v;
}

static bool parse_replay(const std::string& s, unsigned& f, std::vector<Op>& ops, int& sink) {
    sink = MEM; size_t p = s.find("sink="); if (p != std::string::npos) sink = atoi(s.c_str() + p + 5);
    p = s.find("f="); if (p == std::string::npos) return false; f = (unsigned)atoi(s.c_str() + p + 2);
    p = s.find("ops="); if (p == std::string::npos) return false; p += 4;
    while (p < s.size()) {
        size_t c = s.find(':', p), e = s.find(',', p); if (c == std::string::npos || e == std::string::npos) break;
        std::string kn = s.substr(p, c - p); int k = -1; for (int i = 0; i < NKIND; i++) if (kn == KN[i]) k = i;
        if (k < 0) return false;
        ops.push_back({k, strtoull(s.substr(c + 1, e - c - 1).c_str(), nullptr, 10)}); p = e + 1;
    }
    return true;
}

int main(int argc, char** argv) {
    Args a = Args::parse(argc, argv);
    g_dir = scratch_dir();
    Result total;
    if (!a.replay.empty()) {
        unsigned f; std::vector<Op> ops; int sink;
        if (!parse_replay(slurp(a.replay), f, ops, sink)) { fprintf(stderr, "bad replay file\n"); rm_rf(g_dir); return 2; }
        std::string rs = slurp(a.replay); Pool rp(1, 60);
        rp.run(1, [&](uint64_t, Result& r) { check_trace(f, ops, sink, r); }, [&](uint64_t, const std::string& d, Result& r) { r.violation("enc|" + crash_key(d), d.substr(0, 1500), rs); }, total);
        a.finish(total); rm_rf(g_dir); return total.viol.empty() ? 0 : 1;
    }
    bool T = a.thorough();
    // task list; each task is one (stage, fill level)
    struct Task { int stage; unsigned f; };
    std::vector<Task> tasks;
    for (unsigned f = 0; f <= 2048; f++) tasks.push_back({1, f});                                  // singles, every fill level
    for (unsigned f = (T ? 2030 : 2040); f <= 2048; f++) tasks.push_back({2, f});                     // pairs near the boundary
    for (unsigned f = (T ? 2040 : 2045); f <= 2048; f++) tasks.push_back({3, f});                     // triples
    for (unsigned f : (T ? std::vector<unsigned>{0, 2044, 2045, 2046, 2047, 2048} : std::vector<unsigned>{0, 2047})) tasks.push_back({4, f}); // exhaustive 8/16-bit
    for (unsigned f = 0; f <= 2048; f++) if ((T && f % 64 == 0) || f >= (T ? 2040u : 2046u) || f == 0) tasks.push_back({5, f});   // string lengths 0..3*2048
    for (unsigned f : {0u, 2040u, 2041u, 2042u, 2043u, 2044u, 2045u, 2046u, 2047u, 2048u}) tasks.push_back({6, f});               // other sinks
    for (unsigned f : {0u, 2047u}) for (unsigned v = 0; v < 2; v++) tasks.push_back({7, f * 2 + v});                                        // long traces through compressing outputs
    Pool pool(a.jobs);
    std::vector<Op> tri = {{U8, 0}, {U8, 24}, {U16, 256}, {U32, 65536}, {U64, 0x100000000ULL}, {I8, (uint64_t)-1LL}, {I16, (uint64_t)-257LL}, {I64, (uint64_t)INT64_MIN},
                           {BOOL, 1}, {BRK, 0}, {IARR, 0}, {IMAP, 0}, {ARR, 3}, {MAP, 70000}, {BSTRS, 0}, {BSTRS, 1}, {TSTRS, 5}, {BSTRP, 9}, {TSTRP, 2049}, {ARR, 0x100000000ULL}};
    pool.run(tasks.size(), [&](uint64_t i, Result& r) {
        Task t = tasks[i];
        if (a.expired()) { r.deadline_hit = true; return; }
        switch (t.stage) {
        case 1: { auto al = alphabet(t.f, false); for (auto& o : al) check_trace(t.f, {o}, MEM, r); r.count("states"); if (t.f % 512 == 3) r.sample(ops_str(t.f, {al[t.f % al.size()]})); break; }
        case 2: { auto al = alphabet(t.f, true); for (auto& o1 : al) for (auto& o2 : al) check_trace(t.f, {o1, o2}, MEM, r); if (t.f == 2047) r.sample(ops_str(t.f, {al[3], al[40]})); break; }
        case 3: for (auto& o1 : tri) for (auto& o2 : tri) for (auto& o3 : tri) check_trace(t.f, {o1, o2, o3}, MEM, r); break;
        case 4:
            for (uint64_t v = 0; v < 256; v++) { check_trace(t.f, {{U8, v}}, MEM, r); check_trace(t.f, {{I8, (uint64_t)(int64_t)(int8_t)v}}, MEM, r); }
            for (uint64_t v = 0; v < 65536; v++) { check_trace(t.f, {{U16, v}}, MEM, r); check_trace(t.f, {{I16, (uint64_t)(int64_t)(int16_t)v}}, MEM, r); }
            break;
        case 5: for (uint64_t l = 0; l <= 6144; l += 1) { check_trace(t.f, {{(l & 1) ? BSTRS : TSTRP, l}}, MEM, r); } break;
        case 7: { // about 450 KB (thorough: 1.8 MB) of calls: 64 short ones, then strings with incompressible content between integers and container heads; every output kind
            unsigned f = t.f / 2, v = t.f % 2; std::vector<Op> ops; for (int i = 0; i < 64; i++) ops.push_back(tri[i % tri.size()]);
            for (int i = 0; i < (T ? 1200 : 300); i++) { ops.push_back({v ? TSTRS : BSTRP, (uint64_t)(v ? 2049 - i % 5 : 1500 + i % 97)}); ops.push_back(tri[i % 14]); if (i % 3 == 0) ops.push_back({BSTRS, (uint64_t)(i % 40)}); }
            for (int sink : {GZMEM, XZMEM, FD, NAMED, FDS}) { check_trace(f, ops, sink, r); r.count("long_traces"); } break; }
        case 6: { auto al = alphabet(t.f, true); for (int sink : {FD, NAMED, GZMEM, FDS}) for (auto& o : al) check_trace(t.f, {o, {U8, 42}}, sink, r); break; }
        }
    }, [&](uint64_t i, const std::string& d, Result& r) {
        r.violation("enc|" + crash_key(d), "worker crashed in stage " + std::to_string(tasks[i].stage) + " f=" + std::to_string(tasks[i].f) + ": " + d.substr(0, 1500), pool.last_note.empty() ? "stage=" + std::to_string(tasks[i].stage) + ";f=" + std::to_string(tasks[i].f) : pool.last_note);
    }, total);
    total.n["evaluations"] = total.n["traces"];
    total.n["nontrivial"] = total.n["traces"];  // every trace compares >= 1 real encoder call with the reference
    for (int i = 0; i < NKIND; i++) total.outcome(KN[i]);
    a.finish(total);
    rm_rf(g_dir);
    return 0;
}
