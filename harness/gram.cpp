// E-GRAM: every item of a bounded RFC 8949 grammar x every offset that makes it straddle the
// decoder's 65535-byte window boundary (C07).  Ground truth = the generator's own tree.
#include "util.hpp"
#include "libdump.hpp"
using namespace vh;
using namespace ref;
using CDNS::CdnsDecoder; using CDNS::CborType;

static const uint64_t W = 65535;

static std::vector<uint64_t> VALS = {0, 1, 23, 24, 255, 256, 65535, 65536, 0xffffffffULL, 0x100000000ULL, 0x7fffffffffffffffULL, 0x8000000000000000ULL, 0xffffffffffffffffULL};
static std::string pat(size_t n, unsigned salt) { std::string s(n, 0); for (size_t i = 0; i < n; i++) s[i] = (char)((i * 37 + 11 + salt) & 0xff); return s; }

struct Item { Node n; std::string cls; };

static Node with_ai(Node n, int ai) { n.ai = ai; return n; }

static void leaves(std::vector<Item>& out, bool full) {
    for (uint64_t v : VALS) for (int ai = min_ai(v); ai <= 27; ai = ai < 24 ? 24 : ai + 1) {
        if (!full && ai != min_ai(v) && ai != 27) continue;
        out.push_back({with_ai(mk_uint(v), ai), std::string("uint") + (ai == min_ai(v) ? "" : "-wide")});
        out.push_back({with_ai(mk_nint(v), ai), std::string("nint") + (ai == min_ai(v) ? "" : "-wide")});
    }
    for (int s : {0, 19, 20, 21, 22, 23}) out.push_back({mk_simple(s), s == 20 || s == 21 ? "bool" : "simple"});
    if (full) for (int s = 1; s < 19; s++) out.push_back({mk_simple(s), "simple"});
    out.push_back({mk_simple(32), "simple"}); out.push_back({mk_simple(255), "simple"});
    out.push_back({mk_float(25, 0x3c00), "float16"}); out.push_back({mk_float(26, 0x47c35000), "float32"}); out.push_back({mk_float(27, 0x3ff199999999999aULL), "float64"});
    for (int major : {2, 3}) {
        const char* nm = major == 2 ? "bstr" : "tstr";
        for (size_t len : {(size_t)0, (size_t)1, (size_t)23, (size_t)24, (size_t)255, (size_t)256, (size_t)70000}) for (int ai = min_ai(len); ai <= 27; ai = ai < 24 ? 24 : ai + 1) {
            if (!full && ai != min_ai(len) && ai != 27) continue;
            if (len == 70000 && ai != 26 && !(full && ai == 27)) continue;
            Node n = major == 2 ? mk_bstr(pat(len, 1)) : mk_tstr(pat(len, 2)); n.ai = ai;
            out.push_back({n, std::string(nm) + (ai == min_ai(len) ? "" : "-wide")});
        }
        std::vector<std::vector<size_t>> chunkings = {{}, {0}, {1}, {1, 2}, {0, 3, 0}, {24}, {256, 1}, {70000}, {65535, 300}};
        for (auto& ch : chunkings) for (int wide = 0; wide < 2; wide++) {
            if (wide && ch.empty()) continue;
            Node n; n.major = major; n.indef = true; n.ai = 31; unsigned salt = 3;
            for (size_t l : ch) { Node c = major == 2 ? mk_bstr(pat(l, salt)) : mk_tstr(pat(l, salt)); salt++; if (wide) c.ai = c.ai < 25 ? 25 : 26; n.bytes += c.bytes; n.kids.push_back(c); }
            out.push_back({n, std::string("chunked-") + nm});
        }
    }
}

static std::vector<Node> child_alphabet(int depth) {
    std::vector<Node> c = {mk_uint(0), mk_uint(500), mk_nint(24), mk_bstr("ab"), mk_tstr(""), mk_bool(true), mk_float(26, 1), mk_simple(22)};
    { Node s; s.major = 2; s.indef = true; s.ai = 31; s.kids = {mk_bstr("x"), mk_bstr("yz")}; s.bytes = "xyz"; c.push_back(s); }
    if (depth >= 1) {
        c.push_back(mk_array()); c.push_back(mk_map());
        { Node a = mk_array(); a.indef = true; c.push_back(a); } { Node m = mk_map(); m.indef = true; c.push_back(m); }
        c.push_back(mk_tag(1, mk_uint(7)));
        c.push_back(mk_array({mk_uint(1), mk_tstr("k")}));
        { Node a = mk_array({mk_uint(1), mk_array({mk_nint(0)})}); a.indef = true; c.push_back(a); }
        c.push_back(mk_map({mk_uint(1), mk_map({mk_nint(3), mk_bstr("v")})}));
        { Node m = mk_map({mk_uint(9), mk_tag(300, mk_array({mk_uint(2)}))}); m.indef = true; c.push_back(m); }
    }
    return c;
}

static void containers(std::vector<Item>& out, bool full) {
    auto kids = child_alphabet(1);
    // arrays / maps: definite in every head width, and indefinite; 0..2 children
    for (int major : {4, 5}) {
        std::vector<std::vector<Node>> contents; contents.push_back({});
        size_t step = full ? 1 : 3;
        for (size_t i = 0; i < kids.size(); i += (major == 4 ? 1 : step)) {
            if (major == 4) { contents.push_back({kids[i]}); for (size_t j = 0; j < kids.size(); j += step) contents.push_back({kids[i], kids[j]}); }
            else { contents.push_back({mk_uint(i), kids[i]}); for (size_t j = 0; j < kids.size(); j += step) contents.push_back({mk_uint(i), kids[i], mk_nint(j), kids[j]}); }
        }
        for (auto& c : contents) {
            for (int form = 0; form < (full ? 6 : 3); form++) { // 0 preferred, 1 indefinite, 2..5 widened heads 24..27
                Node n = major == 4 ? mk_array(c) : mk_map(c);
                std::string cls = major == 4 ? "array" : "map";
                if (form == 1) { n.indef = true; cls = "indef-" + cls; }
                else if (form >= 2) { n.ai = full ? 22 + form : 27; cls += "-wide"; }
                out.push_back({n, cls});
            }
        }
    }
    // tags
    for (uint64_t t : {(uint64_t)0, (uint64_t)24, (uint64_t)300, (uint64_t)70000, (uint64_t)0x100000000ULL})
        for (auto& k : kids) out.push_back({mk_tag(t, k), "tag"});
    out.push_back({mk_tag(2, mk_tag(3, mk_tstr("t"))), "tag"});
    out.push_back({mk_tag(55799, mk_tag(1, mk_tag(0, mk_array({mk_uint(1)})))), "tag"});
    // deep nests, depth 1..70 (a decoder that keeps a work stack grows it at 8, 16, 32, 64 entries): definite arrays, definite maps, arrays around an empty
    // array, tag chains in front of an array, alternating definite / indefinite arrays, definite arrays with a trailing sibling at every level
    for (int depth : {1, 2, 3, 4, 5, 6, 7, 8, 9, 10, 15, 16, 17, 31, 32, 33, 63, 64, 65, 70}) {
        if (!full && depth > 17 && depth != 33 && depth != 65) continue;
        Node a = mk_uint(7), m = mk_uint(7), e = mk_array(), t = mk_array({mk_uint(1)}), x = mk_uint(7), sib = mk_uint(7);
        for (int d = 0; d < depth; d++) { a = mk_array({a}); m = mk_map({mk_uint(d), m}); e = mk_array({e}); t = mk_tag(d % 4 == 0 ? 1 : d % 4 == 1 ? 300 : d % 4 == 2 ? 70000 : 0x100000000ULL, t); Node y = mk_array({x}); y.indef = d & 1; x = y; sib = mk_array({sib, mk_uint(d)}); }
        out.push_back({a, "deep-array"}); out.push_back({m, "deep-map"}); out.push_back({e, "deep-empty"}); out.push_back({mk_array({t, mk_uint(9)}), "deep-tags"}); out.push_back({x, "deep-mixed"}); out.push_back({sib, "deep-siblings"}); }
    // depth 3 nests
    { Node a = mk_array({mk_map({mk_uint(1), mk_array({mk_tag(4, mk_bstr("deep"))})})}); out.push_back({a, "array"}); Node b = a; b.indef = true; b.kids[0].indef = true; b.kids[0].kids[1].indef = true; out.push_back({b, "indef-array"}); }
}

static std::string padding(uint64_t X) {   // a byte string item whose encoding is exactly X bytes (X=0: none; X in 1..2: small ints)
    if (X == 0) return "";
    if (X < 4) return std::string(X, '\0');
    Node p; uint64_t len;
    if (X <= 24) { len = X - 1; } else if (X == 25) return std::string(1, '\0') + encode(mk_bstr(std::string(22, 'p')));
    else if (X <= 257) len = X - 2; else if (X == 258) return std::string(1, '\0') + encode(mk_bstr(std::string(254, 'p')));
    else if (X <= 65538) len = X - 3; else if (X <= 65540) { len = X - 5; Node n = mk_bstr(std::string(len, 'p')); n.ai = 26; return encode(n); } else len = X - 5;
    return encode(mk_bstr(std::string(len, 'p')));
}

struct Check { std::string key, what; };

// "poison" calls: a decoder call that fails part-way (truncated or malformed input) on this thread. The decoder has to be stateless across
// calls and objects, so every item must decode the same right after one of them.
static const int NPOISON = 6;
static void poison(int k) {
    static const char* IN[] = {"", "\x83\x01", "\x9f\x01\x1c", "\x5f\x41", "\xbf\x01\x82\x01", "\xa2\x01\x9f\x1f", "\x98\x19\x01\x02"};
    static const size_t LEN[] = {0, 2, 3, 2, 4, 4, 4};
    if (k <= 0 || k > NPOISON) return;
    std::istringstream is(std::string(IN[k], LEN[k])); CdnsDecoder d(is);
    try { if (k == 3) d.read_bytestring(); else d.skip_item(); } catch (std::exception&) {}
}

// run the decoder on stream = padding(X) + item + sentinel; compare against ground truth
static void run_item(const Item& it, const std::string& enc, uint64_t X, Result& R, std::vector<Check>& V, int pk = 0) {
    std::string pad = padding(X);
    std::string stream = pad + enc + "\x18\x2a";
    auto consume_pad = [&](CdnsDecoder& d) { if (X == 0) return; if (X < 4) { for (uint64_t i = 0; i < X; i++) d.read_unsigned(); return; } if (X == 25 || X == 258) d.read_unsigned(); d.read_bytestring(); };
    const Node& n = it.n;
    auto fail = [&](const std::string& op, const std::string& w) { V.push_back({(pk ? "stateful-after-failed-call|" : "") + op + "|" + it.cls, op + " on " + it.cls + " at offset " + std::to_string(X) + (pk ? " right after a decoder call that failed part-way (poison " + std::to_string(pk) + ")" : "") + ": " + w}); };
    // (1) peek + matching read
    {
        poison(pk); std::istringstream is(stream); CdnsDecoder d(is);
        try {
            consume_pad(d);
            CborType pt = d.peek_type();
            CborType want = static_cast<CborType>(n.major << 5);
            if (pt != want) fail("peek", "peek_type returned " + std::to_string((int)pt) + " expected " + std::to_string((int)want));
            bool leaf = true;
            switch (n.major) {
            case 0: { uint64_t v = d.read_unsigned(); if (v != n.arg) fail("read", "read_unsigned returned " + std::to_string(v) + " expected " + std::to_string(n.arg)); break; }
            case 1: if (n.arg <= (uint64_t)INT64_MAX) { int64_t v = d.read_negative(); if (v != -1 - (int64_t)n.arg) fail("read", "read_negative returned " + std::to_string(v)); }
                    else { // -1-n is below INT64_MIN: no int64 is "the value RFC 8949 assigns". Refusing (an exception) is fine and so is saturating at INT64_MIN; any other returned number is a wrapped value
                        std::istringstream is2(stream); CdnsDecoder d2(is2); consume_pad(d2); try { int64_t v = d2.read_negative(); if (v != INT64_MIN) fail("read", "read_negative returned " + std::to_string(v) + " for -1-" + std::to_string(n.arg) + " (not representable: neither refused nor saturated)"); } catch (std::exception&) {}
                        d.skip_item(); }
                    break;
            case 2: { std::string s = d.read_bytestring(); if (s != n.bytes) fail("read", "read_bytestring returned " + std::to_string(s.size()) + " bytes, expected " + std::to_string(n.bytes.size())); break; }
            case 3: { std::string s = d.read_textstring(); if (s != n.bytes) fail("read", "read_textstring returned " + std::to_string(s.size()) + " bytes, expected " + std::to_string(n.bytes.size())); break; }
            case 4: { bool indef = !n.indef; /* the out-parameter starts with the opposite value: the call has to set it */ uint64_t c = d.read_array_start(indef); if (indef != n.indef || (!indef && c != n.kids.size())) fail("read", "read_array_start returned " + std::to_string(c) + "/" + std::to_string(indef)); leaf = false; break; }
            case 5: { bool indef = !n.indef; uint64_t c = d.read_map_start(indef); if (indef != n.indef || (!indef && c != n.kids.size() / 2)) fail("read", "read_map_start returned " + std::to_string(c) + "/" + std::to_string(indef)); leaf = false; break; }
            case 7: if (n.is_bool()) { bool b = d.read_bool(); if (b != (n.ai == 21)) fail("read", "read_bool wrong value"); } else d.skip_item(); break;
            default: d.skip_item(); break;
            }
            if (leaf) { uint64_t s = d.read_unsigned(); if (s != 42) fail("read", "item after the read is " + std::to_string(s) + ", expected the sentinel 42"); }
        } catch (std::exception& e) { fail("read", std::string("exception: ") + e.what()); }
    }
    // (1b) integers through read_integer (values outside the int64 range: refused or saturated towards their own sign, never wrapped)
    if (n.major <= 1 && n.arg > (uint64_t)INT64_MAX) {
        std::istringstream is(stream); CdnsDecoder d(is);
        try { consume_pad(d); int64_t v = d.read_integer(); int64_t sat = n.major == 0 ? INT64_MAX : INT64_MIN; if (v != sat) fail("read_integer", "returned " + std::to_string(v) + " for an integer outside the int64 range (neither refused nor saturated)"); } catch (std::exception&) {}
    }
    if (n.major <= 1 && n.arg <= (uint64_t)INT64_MAX) {
        std::istringstream is(stream); CdnsDecoder d(is);
        try { consume_pad(d); int64_t v = d.read_integer(); int64_t want = n.major == 0 ? (int64_t)n.arg : -1 - (int64_t)n.arg; if (v != want) fail("read_integer", "returned " + std::to_string(v) + " expected " + std::to_string(want));
              if (d.read_unsigned() != 42) fail("read_integer", "sentinel not next"); }
        catch (std::exception& e) { fail("read_integer", std::string("exception: ") + e.what()); }
    }
    // (2) skip then sentinel
    {
        poison(pk); std::istringstream is(stream); CdnsDecoder d(is);
        try {
            consume_pad(d); d.skip_item();
            uint64_t s = d.read_unsigned();
            if (s != 42) fail("skip", "item after skip_item is " + std::to_string(s) + ", expected the sentinel 42");
            if (!PEEK(d, (bool)(o.m_p <= o.m_end), true)) fail("skip", "the read cursor is beyond the end of the buffered data");
        } catch (std::exception& e) { fail("skip", std::string("exception: ") + e.what()); }
    }
    // (3) containers: read through read_array with a skipping callback (exercises break detection)
    if (n.major == 4) {
        poison(pk); std::istringstream is(stream); CdnsDecoder d(is);
        try { consume_pad(d); uint64_t cnt = 0; d.read_array([&](CdnsDecoder& dd) { dd.skip_item(); cnt++; });
              if (cnt != n.kids.size()) fail("read_array", "callback ran " + std::to_string(cnt) + " times, expected " + std::to_string(n.kids.size()));
              if (d.read_unsigned() != 42) fail("read_array", "sentinel not next"); }
        catch (std::exception& e) { fail("read_array", std::string("exception: ") + e.what()); }
    }
    R.count("transitions", 3);
}

static std::vector<uint64_t> offsets_for(const Item& it, const std::string& enc, bool full) {
    std::set<uint64_t> xs = {0};
    size_t L = enc.size();
    for (uint64_t j = 1; j <= 2; j++) {
        uint64_t B = W * j;
        if (L + 2 <= 64 || (full && L <= 400)) { for (uint64_t x = (B > L + 2 ? B - L - 2 : 0); x <= B + 1; x++) xs.insert(x); }
        else {
            // long items: put every interesting position of the item on the boundary (and +-1)
            std::set<size_t> pos = {0, 1, 2, 3, 4, 5, 6, 9, 10, L - 1, L, L + 1, L + 2};
            for (auto& k : it.n.kids) { pos.insert(k.begin); pos.insert(k.begin + 1); pos.insert(k.end); pos.insert(k.end > 0 ? k.end - 1 : 0); }
            for (size_t p : pos) for (int d = -1; d <= 1; d++) { int64_t x = (int64_t)B - (int64_t)p + d; if (x >= 0) xs.insert((uint64_t)x); }
        }
    }
    return std::vector<uint64_t>(xs.begin(), xs.end());
}

int main(int argc, char** argv) {
    Args a = Args::parse(argc, argv);
    Result total; bool T = a.thorough();
    std::vector<Item> items; leaves(items, T); containers(items, T);
    // break alone: peek/read_break
    // self-check of the generator: ref decode(encode(n)) == n's encoding
    std::vector<std::string> encs;
    for (auto& it : items) { std::string e = encode(it.n); try { Node back = parse_exact(e); if (encode(back) != e) throw CborError("re-encode differs", 0); } catch (CborError& x) { fprintf(stderr, "generator self-check failed for %s: %s\n", it.cls.c_str(), x.what()); return 2; }
        // kids' begin/end relative offsets from a fresh parse (for boundary placement)
        it.n = parse_exact(e); encs.push_back(e); }
    if (!a.replay.empty()) {
        // replay: item=<hex>;cls=<cls>;x=<offset>
        std::string s = slurp(a.replay); auto get = [&](const std::string& k) { size_t p = s.find(k + "="); if (p == std::string::npos) return std::string(); size_t e = s.find(';', p); return s.substr(p + k.size() + 1, (e == std::string::npos ? s.size() : e) - p - k.size() - 1); };
        std::string e = unhex(get("item")); Item it{parse_exact(e), get("cls")}; uint64_t X = strtoull(get("x").c_str(), nullptr, 10); int pk = atoi(get("poison").c_str());
        Pool rp(1, 60);
        rp.run(1, [&](uint64_t, Result& R) { std::vector<Check> V; run_item(it, e, X, R, V, pk); for (auto& v : V) R.violation("gram|" + v.key, v.what, s); },
               [&](uint64_t, const std::string& d, Result& R) { R.violation("gram|" + crash_key(d), d.substr(0, 1500), s); }, total);
        a.finish(total); return total.viol.empty() ? 0 : 1;
    }
    // phase 0: every item at every offset in workers that never saw a failing call; phases 1..NPOISON: the first and last offset of every item,
    // each preceded by failed call k - one set of freshly forked workers per phase, so that a violation replays from its own description
    for (int pk = 0; pk <= NPOISON; pk++) {
    Pool pool(a.jobs, 120);
    pool.run(items.size(), [&](uint64_t i, Result& R) {
        if (a.expired()) { R.deadline_hit = true; return; }
        const Item& it = items[i]; const std::string& e = encs[i];
        auto xs = offsets_for(it, e, T);
        if (pk) xs = xs.size() > 1 ? std::vector<uint64_t>{xs.front(), xs.back()} : xs;
        bool any = false;
        for (uint64_t X : xs) {
            std::string rep = "item=" + hex(e) + ";cls=" + it.cls + ";x=" + std::to_string(X) + (pk ? ";poison=" + std::to_string(pk) : "");
            set_note(rep.substr(0, 4000));
            std::vector<Check> V; run_item(it, e, X, R, V, pk);
            R.count("traces"); R.count("nontrivial"); if (pk) R.count("after_failed_call");
            for (auto& v : V) { R.violation("gram|" + v.key, v.what, rep.size() < 200000 ? rep : rep.substr(0, 200000)); any = true; }
        }
        if (!pk) { R.count("states"); R.outcome(it.cls + (any ? ":viol" : ":ok")); }
        if (!pk && i % 97 == 5) R.sample("item=" + hex(e.substr(0, 40)) + ";cls=" + it.cls + ";offsets=" + std::to_string(xs.size()));
    }, [&](uint64_t i, const std::string& d, Result& R) {
        R.violation("gram|" + crash_key(d), "crash on " + items[i].cls + ": " + d.substr(0, 1500), pool.last_note);
    }, total);
    }
    total.n["evaluations"] = total.n["traces"];
    total.notes.push_back(std::to_string(items.size()) + " grammar items; offsets: 0 and every split across the 65535*j boundary, j=1,2");
    a.finish(total);
    return 0;
}
