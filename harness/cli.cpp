// E-CLI: the real command-line tools (ASan/UBSan builds) driven over exhaustively enumerated argument tuples.
//   --mode merge  (C18) every tuple of length 1..3 over a pool of 9 input files -> cdns-merge; cdns-itemcount with all option combinations
//   --mode tools  (C03) the five tools on structure-aware mutations: must exit normally with no sanitizer report
#include "util.hpp"
#include "seeds.hpp"
#include <sys/resource.h>
using namespace vh;
using namespace ref;

static std::string g_dir;
static std::map<std::string, std::string> g_tool;

struct Proc { int status; std::string out, err; bool timeout; };
static Proc run_tool(const std::string& exe, const std::vector<std::string>& args, const std::string& tag, int limit_s = 30) {
    std::string of = g_dir + "/" + tag + ".out", ef = g_dir + "/" + tag + ".err";
    pid_t p = fork();
    if (p == 0) {
        int o = open(of.c_str(), O_WRONLY | O_CREAT | O_TRUNC, 0600), e = open(ef.c_str(), O_WRONLY | O_CREAT | O_TRUNC, 0600); dup2(o, 1); dup2(e, 2);
        struct rlimit rl = {(rlim_t)limit_s, (rlim_t)limit_s + 1}; setrlimit(RLIMIT_CPU, &rl);
        std::vector<char*> av; av.push_back((char*)exe.c_str()); for (auto& a : args) av.push_back((char*)a.c_str()); av.push_back(nullptr);
        setenv("ASAN_OPTIONS", "detect_leaks=0:max_allocation_size_mb=64:abort_on_error=0:exitcode=99", 1); setenv("UBSAN_OPTIONS", "print_stacktrace=1:halt_on_error=1:exitcode=98", 1);
        execv(exe.c_str(), av.data()); _exit(127);
    }
    int st = 0; waitpid(p, &st, 0);
    Proc r{st, slurp(of), slurp(ef), false}; if (r.err.size() > 4000) r.err.resize(4000);
    unlink(of.c_str()); unlink(ef.c_str());
    return r;
}
// "" if the tool ended normally, else a finding key suffix
static std::string abnormal(const Proc& p) {
    if (WIFSIGNALED(p.status)) return WTERMSIG(p.status) == SIGXCPU ? "cpu-limit" : "signal" + std::to_string(WTERMSIG(p.status));
    int ec = WEXITSTATUS(p.status);
    if (p.err.find("AddressSanitizer") != std::string::npos || p.err.find("runtime error:") != std::string::npos || ec == 99 || ec == 98) return crash_key(p.err);
    if (ec != 0 && ec != 1) return "exit" + std::to_string(ec);
    return "";
}

struct PoolFile { std::string name, path, bytes; bool cdns_header = false, valid = false; RFile rf; size_t readable_blocks = 0; };

static std::string strip_bpi(const std::string& d) { size_t p = d.find(';'); return d.substr(p + 1); }
static std::string earliest(const RBlock& b, const RFile& f) { const RParams& p = f.params[b.bpi]; if (!p.tps) return "?"; u128 t = (u128)b.e_secs * p.tps + b.e_ticks; return u128s(t / p.tps) + "." + u128s(t % p.tps); }

struct CV { std::string key, what; };

static std::vector<long> numbers(const std::string& s) { std::vector<long> v; size_t i = 0; while (i < s.size()) { if (isdigit((unsigned char)s[i])) { long x = 0; while (i < s.size() && isdigit((unsigned char)s[i])) x = x * 10 + (s[i++] - '0'); v.push_back(x); } else i++; } return v; }

static void check_itemcount(const std::string& path, const RFile& rf, const std::string& tag, Result& R, std::vector<CV>& out) {
    // option spellings: separate, combined, either order, after the file name (getopt permutes)
    static const struct { int opt; std::vector<std::string> pre, post; } SP[] = {{0, {}, {}}, {1, {"-b"}, {}}, {2, {"-p"}, {}}, {3, {"-b", "-p"}, {}}, {3, {"-p", "-b"}, {}}, {3, {"-bp"}, {}}, {3, {"-pb"}, {}}, {1, {}, {"-b"}}, {3, {"-p"}, {"-b"}}};
    for (auto& sp : SP) { int opt = sp.opt;
        std::vector<std::string> args = sp.pre; args.push_back(path); args.insert(args.end(), sp.post.begin(), sp.post.end());
        Proc p = run_tool(g_tool["cdns-itemcount"], args, tag + "ic" + std::to_string(opt)); R.count("tool_runs");
        std::string ab = abnormal(p); if (!ab.empty()) { out.push_back({"itemcount-abnormal|" + ab, "cdns-itemcount ended abnormally: " + p.err.substr(0, 300)}); continue; }
        std::vector<long> got = numbers(p.out), want;
        if (opt & 1) { for (size_t i = 0; i < rf.blocks.size(); i++) { if (opt & 2) want.push_back((long)i); want.push_back(rf.blocks[i].qrs.size()); want.push_back(rf.blocks[i].aecs.size()); want.push_back(rf.blocks[i].mms.size()); } }
        else { long q = 0, a = 0, m = 0; for (auto& b : rf.blocks) { q += b.qrs.size(); a += b.aecs.size(); m += b.mms.size(); } want = {q, a, m}; }
        if (got != want) { std::string g, w; for (long x : got) g += std::to_string(x) + " "; for (long x : want) w += std::to_string(x) + " "; out.push_back({std::string("itemcount-wrong|") + ((opt & 1) ? "per-block" : "total") + ((opt & 2) ? "|pretty" : ""), "cdns-itemcount " + std::string((opt & 1) ? "-b " : "") + ((opt & 2) ? "-p " : "") + "printed [" + g + "] independent parse gives [" + w + "]"}); }
    }
}

int main(int argc, char** argv) {
    Args a = Args::parse(argc, argv); g_dir = scratch_dir(); Result total; bool T = a.thorough();
    auto done = [&](int rc) { a.finish(total); rm_rf(g_dir); return rc; };
    for (auto& kv : a.kv) if (kv.first.rfind("tool-", 0) == 0) g_tool[kv.first.substr(5)] = kv.second;
    using seeds::PS;

    if (a.mode == "merge") {
        // ---- pool
        std::vector<PoolFile> pool;
        auto add = [&](const std::string& n, const std::string& bytes, bool exists = true) { PoolFile f; f.name = n; f.path = g_dir + "/in_" + n; f.bytes = bytes; if (exists) spit(f.path, bytes);
            try { f.rf = read_file(bytes); f.valid = true; f.cdns_header = true; f.readable_blocks = f.rf.blocks.size(); } catch (std::exception&) {} pool.push_back(f); };
        { seeds::Opt o; o.sets = {PS(10000, 1000000, 0)}; o.blocks = 3; o.per_block = 2; add("A", seeds::make(o)); }
        { seeds::Opt o; o.sets = {PS(10000, 1000, 3, true), PS(10000, 1000, 0)}; o.blocks = 4; o.per_block = 2; o.qr_from = 2; add("B", seeds::make(o)); }
        { seeds::Opt o; o.sets = {PS(10000, 1000000000, 4)}; o.blocks = 2; o.per_block = 1; o.stats = true; add("C", seeds::make(o)); }
        { seeds::Opt o; o.sets = {PS(10000, 1000000, 0)}; o.blocks = 2; o.vmin = 5; add("D", seeds::make(o)); }
        { seeds::Opt o; o.sets = {PS(10000, 1000000, 0)}; o.blocks = 2; o.vpriv = 9; add("E", seeds::make(o)); }
        { std::string g(300, 0); for (size_t i = 0; i < g.size(); i++) g[i] = (char)((i * 197 + 13) & 0xff); add("G", g); }
        { const PoolFile& B = pool[1]; size_t cut = (B.rf.blocks[1].begin + B.rf.blocks[1].end) / 2; PoolFile h; h.name = "H"; h.path = g_dir + "/in_H"; h.bytes = B.bytes.substr(0, cut); spit(h.path, h.bytes); h.cdns_header = true; h.valid = false; h.rf = B.rf; h.readable_blocks = 1; pool.push_back(h); }
        { Node root = parse_exact(pool[0].bytes); root.kids[2].kids.clear(); root.kids[2].indef = true; add("I", encode(root)); }
        { // J: like C (10^9 ticks per second) but its blocks omit the optional block-parameters-index (default 0), times near the end of a second
          seeds::Opt o; o.sets = {PS(10000, 1000000000, 0)}; o.blocks = 2; o.per_block = 2; o.qr_from = 2; Node root = parse_exact(seeds::make(o));
          for (auto& blk : root.kids[2].kids) for (size_t i = 0; i + 1 < blk.kids.size(); i += 2) if (blk.kids[i].is_uint() && blk.kids[i].arg == 0) { Node& pre = blk.kids[i + 1]; for (size_t j = 0; j + 1 < pre.kids.size(); j += 2) if (pre.kids[j].is_uint() && pre.kids[j].arg == 1) { pre.kids.erase(pre.kids.begin() + j, pre.kids.begin() + j + 2); break; } }
          add("J", encode(root)); }
        { // K: like A but with an empty block (preamble only) between its blocks and an empty block at the end - valid, and to be skipped by the merge
          Node root = parse_exact(pool[0].bytes); Node& blocks = root.kids[2]; Node empty = mk_map({mk_uint(0), mk_map({mk_uint(0), mk_array({mk_uint(1600000000), mk_uint(0)}), mk_uint(1), mk_uint(0)})});
          blocks.kids.insert(blocks.kids.begin() + 1, empty); blocks.kids.push_back(empty); add("K", encode(root));
          // P: the file STARTS with an empty block (the first thing the merge hands to its exporter is an empty block)
          Node r2 = parse_exact(pool[0].bytes); r2.kids[2].kids.insert(r2.kids[2].kids.begin(), empty); add("P", encode(r2)); }
        { seeds::Opt o; o.sets = {PS(10000, 1000000, 0)}; o.blocks = 2; o.per_block = 1; o.qr_from = 1; o.vpriv = -1; add("L", seeds::make(o)); }   // no private version at all (a plain RFC 8618 producer)
        { // M: like A, but written by a non-aggregating producer: in each block the first address-event entry appears a second time with another count
          Node root = parse_exact(pool[0].bytes); int edited = 0;
          for (auto& blk : root.kids[2].kids) for (size_t i = 0; i + 1 < blk.kids.size(); i += 2) if (blk.kids[i].is_uint() && blk.kids[i].arg == 4 && !blk.kids[i + 1].kids.empty()) { Node dup = blk.kids[i + 1].kids[0];
              for (size_t j = 0; j + 1 < dup.kids.size(); j += 2) if (dup.kids[j].is_uint() && dup.kids[j].arg == 4) { dup.kids[j + 1] = mk_uint(dup.kids[j + 1].arg + 2 + edited); edited++; } blk.kids[i + 1].kids.push_back(dup); }
          if (!edited) { fprintf(stderr, "pool file M: no address-event array found\n"); return done(2); }
          add("M", encode(root)); }
        { // N: the first address-event entry of each block appears a second time unchanged (same key, same count): still two items of the array
          Node root = parse_exact(pool[0].bytes); int edited = 0;
          for (auto& blk : root.kids[2].kids) for (size_t i = 0; i + 1 < blk.kids.size(); i += 2) if (blk.kids[i].is_uint() && blk.kids[i].arg == 4 && !blk.kids[i + 1].kids.empty()) { Node dup = blk.kids[i + 1].kids[0]; blk.kids[i + 1].kids.push_back(dup); edited++; }
          if (!edited) { fprintf(stderr, "pool file N: no address-event array found\n"); return done(2); }
          add("N", encode(root)); }
        { // O: written by a producer that does not de-duplicate its tables: in every block the first IP address appears a second time at index 1 and every
          // address index >= 1 (records, signatures, malformed-message data) is shifted accordingly - the resolved content equals that of file B
          Node root = parse_exact(pool[1].bytes); int edited = 0;
          auto bump = [&](Node& m, uint64_t key) { for (size_t j = 0; j + 1 < m.kids.size(); j += 2) if (m.kids[j].is_uint() && m.kids[j].arg == key && m.kids[j + 1].is_uint() && m.kids[j + 1].arg >= 1) m.kids[j + 1] = mk_uint(m.kids[j + 1].arg + 1); };
          for (auto& blk : root.kids[2].kids) for (size_t i = 0; i + 1 < blk.kids.size(); i += 2) { if (!blk.kids[i].is_uint()) continue; Node& v = blk.kids[i + 1];
              if (blk.kids[i].arg == 2) for (size_t t = 0; t + 1 < v.kids.size(); t += 2) { if (!v.kids[t].is_uint()) continue; Node& tab = v.kids[t + 1];
                  if (v.kids[t].arg == 0 && !tab.kids.empty()) { tab.kids.insert(tab.kids.begin() + 1, tab.kids[0]); edited++; }
                  if (v.kids[t].arg == 3) for (auto& sig : tab.kids) bump(sig, 0); if (v.kids[t].arg == 8) for (auto& md : tab.kids) bump(md, 0); }
              if (blk.kids[i].arg == 3) for (auto& qr : v.kids) bump(qr, 1); if (blk.kids[i].arg == 4) for (auto& ae : v.kids) bump(ae, 2); if (blk.kids[i].arg == 5) for (auto& mm : v.kids) bump(mm, 1); }
          if (!edited) { fprintf(stderr, "pool file O: no ip table found\n"); return done(2); }
          add("O", encode(root));
          if (!pool.back().valid || pool.back().rf.blocks.size() != pool[1].rf.blocks.size()) { fprintf(stderr, "pool file O invalid\n"); return done(2); }
          for (size_t b = 0; b < pool[1].rf.blocks.size(); b++) if (strip_bpi(block_dump(pool.back().rf.blocks[b])) != strip_bpi(block_dump(pool[1].rf.blocks[b]))) { fprintf(stderr, "pool file O: block %zu does not resolve to the content of B\n", b); return done(2); } }
        { // Q: file B as a streaming producer writes it: every byte / text string of two or more bytes is an indefinite-length string of two or three chunks
          Node root = parse_exact(pool[1].bytes); int edited = 0;
          std::vector<Node*> strs; visit(root, [&](Node& n) { if ((n.major == 2 || n.major == 3) && !n.indef && n.bytes.size() >= 2) strs.push_back(&n); });
          for (Node* np : strs) { Node& n = *np; { std::string all = n.bytes; size_t parts = all.size() >= 6 ? 3 : 2, per = all.size() / parts; int mj = n.major;
              n.kids.clear(); for (size_t k = 0; k < parts; k++) { std::string piece = all.substr(k * per, k + 1 == parts ? std::string::npos : per); n.kids.push_back(mj == 2 ? mk_bstr(piece) : mk_tstr(piece)); } n.bytes.clear(); n.indef = true; edited++; } }
          if (!edited) { fprintf(stderr, "pool file Q: no string found\n"); return done(2); }
          add("Q", encode(root));
          if (!pool.back().valid || pool.back().rf.blocks.size() != pool[1].rf.blocks.size()) { fprintf(stderr, "pool file Q invalid\n"); return done(2); }
          for (size_t b = 0; b < pool[1].rf.blocks.size(); b++) if (block_dump(pool.back().rf.blocks[b]) != block_dump(pool[1].rf.blocks[b])) { fprintf(stderr, "pool file Q: block %zu does not resolve to the content of B\n", b); return done(2); } }
        { PoolFile z; z.name = "Z"; z.path = g_dir + "/in_Z_missing"; pool.push_back(z); }
        if (!pool[7].valid || !pool[8].valid || pool[8].rf.blocks.empty() || pool[8].rf.blocks[0].has_bpi) { fprintf(stderr, "pool file I or J invalid\n"); return done(2); }
        size_t N = pool.size();
        // beyond the enumerated pool: 140 small files with two parameter sets each, all different (the merged file needs 280 sets: indices beyond 8 bits)
        const size_t MANY = 140;
        for (size_t i = 0; i < MANY; i++) { seeds::Opt o; o.sets = {PS(10000, 1000 + i, 0), PS(5000 + i, 1000000, i % 2 ? 3 : 0)}; o.blocks = 2; o.per_block = 1; o.aec = (i % 3 == 0); o.mm = (i % 4 == 0); o.qr_from = (int)(i % 5); char nm[16]; snprintf(nm, sizeof nm, "m%03zu", i); add(nm, seeds::make(o)); }
        auto run_tuple = [&](const std::vector<size_t>& tup, Result& R) {
            std::string tag = "t" + std::to_string(getpid()); std::string name; for (size_t i : tup) name += pool[i].name;
            std::string rep = "tuple=" + name; set_note(rep); std::vector<CV> out;
            std::string outp = g_dir + "/" + tag + "_merged"; unlink(outp.c_str()); unlink((outp + ".part").c_str());
            std::vector<std::string> args = {"-o", outp}; for (size_t i : tup) args.push_back(pool[i].path);
            Proc p = run_tool(g_tool["cdns-merge"], args, tag + "m"); R.count("tool_runs"); R.count("traces"); R.count("nontrivial");
            std::string ab = abnormal(p);
            if (!ab.empty()) out.push_back({"merge-abnormal|" + ab, "cdns-merge ended abnormally: " + p.err.substr(0, 400)});
            else {
                // expectation
                const PoolFile* first = nullptr; struct Exp { std::string dump, params, earliest; std::string from; }; std::vector<Exp> expect;
                for (size_t i : tup) { const PoolFile& f = pool[i]; if (!f.cdns_header) continue;
                    if (!first) first = &f; else if (f.rf.major != first->rf.major || f.rf.minor != first->rf.minor || f.rf.has_private != first->rf.has_private || (f.rf.has_private && f.rf.priv != first->rf.priv)) continue;
                    for (size_t b = 0; b < f.readable_blocks; b++) { const RBlock& rb = f.rf.blocks[b]; if (rb.qrs.empty() && rb.aecs.empty() && rb.mms.empty()) continue; expect.push_back({strip_bpi(block_dump(rb)), f.rf.params[rb.bpi].dump, earliest(rb, f.rf), f.name + "#" + std::to_string(b)}); } }
                std::string merged = slurp(outp);
                if (expect.empty()) { if (!merged.empty()) { bool ok = false; try { RFile m = read_file(merged); ok = m.blocks.empty(); } catch (std::exception&) {} if (!ok) out.push_back({"output-for-no-blocks", "no input contributes a block but the output has " + std::to_string(merged.size()) + " bytes that are not an empty C-DNS file"}); } R.outcome("empty-merge"); }
                else {
                    try {
                        RFile m = read_file(merged);
                        if (first && (m.major != first->rf.major || m.minor != first->rf.minor || m.has_private != first->rf.has_private || (m.has_private && m.priv != first->rf.priv))) out.push_back({"output-version", "merged file has a different format version than the first readable input"});
                        if (m.blocks.size() != expect.size()) { std::string froms; for (auto& e : expect) froms += e.from + " "; out.push_back({m.blocks.size() > expect.size() ? "extra-blocks" : "missing-blocks", "merged file has " + std::to_string(m.blocks.size()) + " blocks, expected " + std::to_string(expect.size()) + " (" + froms + ")"}); }
                        else for (size_t i = 0; i < expect.size(); i++) {
                            const RBlock& b = m.blocks[i];
                            if (strip_bpi(block_dump(b)) != expect[i].dump) { out.push_back({"block-content", "block " + std::to_string(i) + " (from " + expect[i].from + ") differs from its source: records, statistics or absolute times changed"}); break; }
                            if (m.params[b.bpi].dump != expect[i].params) { out.push_back({"block-parameters", "block " + std::to_string(i) + " (from " + expect[i].from + ") refers to block parameters different from its source's"}); break; }
                            if (earliest(b, m) != expect[i].earliest) { out.push_back({"earliest-time", "block " + std::to_string(i) + " earliest time changed"}); break; }
                            if (!b.unreachable.empty() && false) {}
                        }
                        R.outcome("merged-blocks=" + std::to_string(std::min<size_t>(m.blocks.size(), 9)));
                        if (tup.size() <= 2 || T) check_itemcount(outp, m, tag, R, out);
                    } catch (std::exception& e) { out.push_back({"output-invalid", std::string("merged file is not a valid C-DNS file: ") + e.what()}); }
                }
            }
            unlink(outp.c_str()); unlink((outp + ".part").c_str());
            for (auto& v : out) R.violation("merge|" + v.key, v.what + " [inputs " + name + "]", rep);
            if (R.n["traces"] % 53 == 1) R.sample(rep);
        };
        auto parse_tuple = [&](const std::string& s) { std::vector<size_t> t; size_t p = s.find("tuple="); if (p == std::string::npos) return t; for (size_t i = p + 6; i < s.size(); i++) for (size_t k = 0; k < N; k++) if (pool[k].name[0] == s[i]) t.push_back(k); return t; };
        std::vector<size_t> many_tuple; for (size_t i = 0; i < MANY; i++) many_tuple.push_back(N + i); many_tuple.push_back(0); many_tuple.push_back(N);   // + file A + the first small file again
        if (!a.replay.empty()) { std::string s = slurp(a.replay);
            if (s.find("tuple=m000") != std::string::npos) { run_tuple(many_tuple, total); return done(total.viol.empty() ? 0 : 1); }
            size_t ic = s.find("itemcount=");
            if (ic != std::string::npos) { // itemcount run directly on one pool file
                for (auto& f : pool) if (f.valid && f.name[0] == s[ic + 10]) { std::vector<CV> out; check_itemcount(f.path, f.rf, "rp", total, out); for (auto& v : out) total.violation("merge|" + v.key, v.what + " [file " + f.name + "]", "itemcount=" + f.name); }
                return done(total.viol.empty() ? 0 : 1); }
            auto t = parse_tuple(s); if (t.empty()) return done(2); run_tuple(t, total); return done(total.viol.empty() ? 0 : 1); }
        std::vector<std::vector<size_t>> tuples;
        for (size_t i = 0; i < N; i++) { tuples.push_back({i}); for (size_t j = 0; j < N; j++) { tuples.push_back({i, j}); for (size_t k = 0; k < N; k++) tuples.push_back({i, j, k}); } }
        Pool pl(a.jobs, 300);
        tuples.push_back(many_tuple);
        pl.run(tuples.size() + 1, [&](uint64_t i, Result& R) {
            if (a.expired()) { R.deadline_hit = true; return; }
            if (i == tuples.size()) { // itemcount on every valid input
                for (size_t fi = 0; fi < N; fi++) if (pool[fi].valid) { auto& f = pool[fi]; std::vector<CV> out; check_itemcount(f.path, f.rf, "p" + std::to_string(getpid()), R, out); R.count("traces"); R.count("nontrivial"); for (auto& v : out) R.violation("merge|" + v.key, v.what + " [file " + f.name + "]", "itemcount=" + f.name); }
                return; }
            run_tuple(tuples[i], R);
        }, [&](uint64_t, const std::string& d, Result& R) { R.violation("merge|harness-crash", d.substr(0, 500), pl.last_note); }, total);
        total.n["evaluations"] = total.n["traces"];
        total.notes.push_back("pool: A(1 set,1e6 tps,3 blocks) B(2 sets,1e3 tps,reduced hints,4 blocks) C(1e9 tps, QR hints 0) D(minor version 5) E(private version 9) G(300 non-CDNS bytes) H(B cut inside block 2) I(valid, zero blocks) J(10^9 ticks, blocks without block-parameters-index) K(A with two empty blocks) P(A with an empty block first) L(no private version) M(A with an address-event key listed twice with different counts) N(the same with equal counts) O(B with a duplicated IP table entry in front of referenced ones) Z(missing)");
        return done(0);
    }

    if (a.mode == "tools") {
        std::vector<std::pair<std::string, std::string>> inputs;
        for (auto sd : std::vector<std::pair<std::string, std::string>>{{"small", seeds::small()}, {"rich", seeds::rich()}}) {
            const std::string& b = sd.second;
            for (size_t n = 0; n <= b.size(); n += (T ? 3 : 11)) inputs.push_back({"trunc-" + sd.first + "-" + std::to_string(n), b.substr(0, n)});
            Node root = parse_exact(b); std::vector<size_t> heads; visit((const Node&)root, [&](const Node& x) { heads.push_back(x.begin); });
            for (size_t hi = 0; hi < heads.size(); hi += (T ? 1 : 3)) for (int v : {0x00, 0x1b, 0x3b, 0x5b, 0x7f, 0x9b, 0xbf, 0xc1, 0xff}) { std::string m = b; m[heads[hi]] = (char)v; inputs.push_back({"head-" + sd.first + "-" + std::to_string(heads[hi]) + "=" + std::to_string(v), m}); }
            // boundary arguments in uint positions: every 1-byte-argument head gets 0xff.. widened
            for (size_t hi = 0; hi < heads.size(); hi += (T ? 2 : 5)) { std::string m = b.substr(0, heads[hi]) + std::string(1, (char)((b[heads[hi]] & 0xe0) | 27)) + std::string(8, '\xff') + b.substr(heads[hi] + 1); inputs.push_back({"arg64-" + sd.first + "-" + std::to_string(heads[hi]), m}); }
        }
        for (int k = 0; k < 4; k++) for (size_t d : {(size_t)1000, (size_t)150000}) { std::string s; if (k == 0) { s.assign(d, (char)0x81); s.push_back(0); } else if (k == 1) { for (size_t i = 0; i < d; i++) { s.push_back((char)0xa1); s.push_back(0); } s.push_back(0); } else if (k == 2) s.assign(d, (char)0x9f); else { s.assign(d, (char)0xc1); s.push_back(0); } inputs.push_back({"bomb" + std::to_string(k) + "-" + std::to_string(d), s}); }
        inputs.push_back({"empty", ""}); inputs.push_back({"exact65535", seeds::exact(65535 + 40).substr(0, 65535)});
        static const char* tools[] = {"cdns-blocks", "cdns-itemcount", "cdns-items", "cdns-preamble", "cdns-merge"};
        auto run_input = [&](size_t i, Result& R) {
            std::string path = g_dir + "/i" + std::to_string(getpid()); spit(path, inputs[i].second);
            for (const char* t : tools) {
                std::vector<std::vector<std::string>> argsets; std::string mo = g_dir + "/mo" + std::to_string(getpid());
                if (std::string(t) == "cdns-merge") argsets = {{"-o", mo, path}, {"-o", mo, path, path}}; else if (std::string(t) == "cdns-itemcount") argsets = {{path}, {"-b", "-p", path}}; else if (std::string(t) == "cdns-items") argsets = {{path}, {"-n", "0-3", "-q", path}}; else argsets = {{path}};
                for (auto& args : argsets) {
                    std::string rep = "input=" + inputs[i].first + ";tool=" + t + ";hex=" + (inputs[i].second.size() <= 3000 ? hex(inputs[i].second) : "<long>"); set_note(rep.substr(0, 7000));
                    Proc p = run_tool(g_tool[t], args, "x" + std::to_string(getpid()), 20); R.count("traces"); R.count("tool_runs"); if (!p.out.empty()) R.count("nontrivial");
                    std::string ab = abnormal(p); if (!ab.empty()) R.violation(std::string("tools|") + t + "|" + ab, std::string(t) + " on " + inputs[i].first + ": " + p.err.substr(0, 600), rep);
                    R.outcome(std::string(t) + (ab.empty() ? (p.err.empty() ? ":ok" : ":diagnostic") : ":abnormal"));
                    unlink(mo.c_str()); unlink((mo + ".part").c_str());
                }
            }
            unlink(path.c_str());
        };
        if (!a.replay.empty()) { std::string s = slurp(a.replay); size_t p = s.find("input="); std::string nm = s.substr(p + 6, s.find(';', p) - p - 6); for (size_t i = 0; i < inputs.size(); i++) if (inputs[i].first == nm) run_input(i, total); return done(total.viol.empty() ? 0 : 1); }
        Pool pl(a.jobs, 300);
        pl.run(inputs.size(), [&](uint64_t i, Result& R) { if (a.expired()) { R.deadline_hit = true; return; } run_input(i, R); if (i % 101 == 0) R.sample("input=" + inputs[i].first); },
               [&](uint64_t, const std::string& d, Result& R) { R.violation("tools|harness-crash", d.substr(0, 500), pl.last_note); }, total);
        total.n["evaluations"] = total.n["traces"];
        return done(0);
    }
    fprintf(stderr, "unknown mode\n"); return done(2);
}
