// E-HIST: exhaustive enumeration of exporter API histories on the real CdnsExporter, each step
// compared with the reference model (model.hpp), every finished output parsed by the independent
// reference (ref/) and by the library's own reader (three-way vote).
// Profiles: flush (C12), rotate (C13), roundtrip (C01), wellformed (C02), counts (C10)
#include "util.hpp"
#include "model.hpp"
#include "pools.hpp"
#include <zlib.h>
#include <lzma.h>
#include <dirent.h>
#include <deque>
using namespace vh;
using namespace CDNS;

// ------------------------------------------------------------------ operations
enum OpK { QR, AEC, MM, WB, ROTX, ROTN, ROTS, ACT, ADDBP, EDIT };
struct Op { int k; int a; int sv; };
static std::string tok(const Op& o) {
    static const char* n[] = {"qr", "aec", "mm", "wb", "rotx", "rotn", "rots", "act", "addbp", "edit"};
    std::string s = n[o.k]; if (o.k <= MM || o.k == ACT || o.k == EDIT) s += std::to_string(o.a); if (o.k <= MM && o.sv) s += "s" + std::to_string(o.sv); return s; }
static bool parse_tok(const std::string& t, Op& o) {
    static const char* n[] = {"qr", "aec", "mm", "wb", "rotx", "rotn", "rots", "act", "addbp", "edit"};
    int best = -1; for (int i = 0; i < 10; i++) if (t.rfind(n[i], 0) == 0 && (best < 0 || strlen(n[i]) > strlen(n[best]))) best = i;
    if (best < 0) return false; o.k = best; o.a = 0; o.sv = 0; std::string r = t.substr(strlen(n[best]));
    size_t s = r.find('s'); if (s != std::string::npos) { o.sv = atoi(r.c_str() + s + 1); r = r.substr(0, s); } if (!r.empty()) o.a = atoi(r.c_str()); return true; }
static std::string hist_str(const std::vector<Op>& h) { std::string s; for (auto& o : h) { if (!s.empty()) s += ","; s += tok(o); } return s; }

// ------------------------------------------------------------------ decompression (zlib / liblzma decoders)
static bool gunzip(const std::string& z, std::string& out) {
    out.clear(); if (z.empty()) return false;
    z_stream s; memset(&s, 0, sizeof s); if (inflateInit2(&s, 31) != Z_OK) return false;
    s.next_in = (Bytef*)z.data(); s.avail_in = z.size(); char buf[65536]; int r;
    do { s.next_out = (Bytef*)buf; s.avail_out = sizeof buf; r = inflate(&s, Z_NO_FLUSH); out.append(buf, sizeof buf - s.avail_out); } while (r == Z_OK && (s.avail_in || s.avail_out == 0));
    inflateEnd(&s); return r == Z_STREAM_END && s.avail_in == 0;
}
static bool unxz(const std::string& z, std::string& out) {
    out.clear(); if (z.empty()) return false;
    lzma_stream s = LZMA_STREAM_INIT; if (lzma_stream_decoder(&s, UINT64_MAX, 0) != LZMA_OK) return false;
    s.next_in = (const uint8_t*)z.data(); s.avail_in = z.size(); uint8_t buf[65536]; lzma_ret r;
    do { s.next_out = buf; s.avail_out = sizeof buf; r = lzma_code(&s, LZMA_FINISH); out.append((char*)buf, sizeof buf - s.avail_out); } while (r == LZMA_OK);
    lzma_end(&s); return r == LZMA_STREAM_END && s.avail_in == 0;
}

// ------------------------------------------------------------------ one history
enum Sink { S_MEM, S_FILE, S_FD, S_FDS };   // S_FDS: descriptor whose write(2) transfers at most 7 bytes per call (environment deviation 'short write')
#include <sys/syscall.h>
static size_t g_wcap = 0; static uint64_t g_short_writes = 0;
extern "C" ssize_t write(int fd, const void* buf, size_t n) { if (g_wcap && fd > 2 && n > g_wcap) { g_short_writes++; n = g_wcap; } return syscall(SYS_write, fd, buf, n); }
struct Run { std::string cfg; int sink = S_MEM; int comp = 0; };
static std::string g_dir; static std::string g_profile; static bool g_abstract_key = false;
static std::map<uint64_t, Pools> g_pools;
static const Pools& pools(uint64_t tps) { auto it = g_pools.find(tps); if (it == g_pools.end()) it = g_pools.emplace(tps, make_pools(tps)).first; return it->second; }

struct Viol { std::string key, what; };

static std::string msg_class(const std::string& m) { std::string c; for (char ch : m) { if (isdigit((unsigned char)ch)) { if (c.empty() || c.back() != '#') c.push_back('#'); } else c.push_back(ch); } return c.substr(0, 70); }

template <class B> static std::string block_digest(B& b) {
    std::ostringstream k;
    k << "q" << b.get_qr_count() << "e" << b.get_aec_count() << "m" << b.get_mm_count() << "i" << b.get_block_parameters_index()
      << "t" << PEEK(b, (long)o.m_ip_address.size(), -1L) << "," << PEEK(b, (long)o.m_classtype.size(), -1L) << "," << PEEK(b, (long)o.m_name_rdata.size(), -1L) << "," << PEEK(b, (long)o.m_qr_sig.size(), -1L) << "," << PEEK(b, (long)o.m_qlist.size(), -1L)
      << "," << PEEK(b, (long)o.m_qrr.size(), -1L) << "," << PEEK(b, (long)o.m_rrlist.size(), -1L) << "," << PEEK(b, (long)o.m_rr.size(), -1L) << "," << PEEK(b, (long)o.m_malformed_message_data.size(), -1L)
      << "e" << PEEK(b, (long long)o.m_block_preamble.earliest_time.m_secs, -1LL) << "." << PEEK(b, (long long)o.m_block_preamble.earliest_time.m_ticks, -1LL) << "s" << PEEK(b, (int)(o.m_block_statistics ? 1 : 0), -1)
      << "p" << PEEK(b, (long long)o.m_block_parameters.storage_parameters.max_block_items, -1LL) << "," << PEEK(b, (long long)o.m_block_parameters.storage_parameters.ticks_per_second, -1LL) << ","
      << PEEK(b, (long long)o.m_block_parameters.storage_parameters.storage_hints.query_response_hints, -1LL) << "," << PEEK(b, (long long)o.m_block_parameters.storage_parameters.storage_hints.query_response_signature_hints, -1LL) << ","
      << PEEK(b, (int)o.m_block_parameters.storage_parameters.storage_hints.rr_hints, -1) << "," << PEEK(b, (int)o.m_block_parameters.storage_parameters.storage_hints.other_data_hints, -1);
    return k.str();
}
// returns true if the history is inside the documented preconditions (counted), false if pruned
static bool run_history(const Cfg& cfg, const Run& run_in, const std::vector<Op>& h, Result& R, std::vector<Viol>& V, std::string* state_key = nullptr) {
    Run run = run_in; struct CapGuard { uint64_t s0 = g_short_writes; Result& R; ~CapGuard() { g_wcap = 0; R.count("short_writes", g_short_writes - s0); } } capguard{g_short_writes, R};
    if (run.sink == S_FDS) { run.sink = S_FD; g_wcap = 7; }
    std::vector<BlockParameters> bps; std::vector<model::Params> mps;
    for (auto& s : cfg.sets) { bps.push_back(build_bp(s)); mps.push_back(model::from(bps.back())); }
    BlockParameters extra = build_bp(cfg.extra);
    model::Exporter M(mps);
    FilePreamble fp(bps);
    std::vector<std::string> mem; std::vector<std::string> names; std::vector<std::string> snaps; // snapshot of output i taken when it was closed
    std::string base = g_dir + "/h" + std::to_string(getpid()) + "_";
    auto ext = [&]() { return run.comp == 1 ? ".gz" : run.comp == 2 ? ".xz" : ""; };
    auto comp = run.comp == 1 ? CborOutputCompression::GZIP : run.comp == 2 ? CborOutputCompression::XZ : CborOutputCompression::NO_COMPRESSION;
    int nout = 0;
    auto new_name = [&]() { std::string n = base + std::to_string(nout++); names.push_back(n); unlink((n + ext()).c_str()); unlink((n + ext() + ".part").c_str());
        // environment: an earlier run died while writing to this name and left its '.part' file behind - it must not leak into the new output
        if (run.sink == S_FILE) { std::string junk(300, 0); for (size_t i = 0; i < junk.size(); i++) junk[i] = (char)(i * 11 + 5); spit(n + ext() + ".part", junk); }
        return n; };
    std::unique_ptr<CdnsExporter> E;
    struct Cleanup { std::vector<std::string>& n; std::function<std::string()> e; std::unique_ptr<CdnsExporter>& E; ~Cleanup() { E.reset(); for (auto& x : n) { unlink((x + e()).c_str()); unlink((x + e() + ".part").c_str()); unlink(x.c_str()); } } } cleanup{names, ext, E};
    auto fail = [&](const std::string& k, const std::string& w) { V.push_back({k, w}); };
    try {
        if (run.sink == S_MEM) E.reset(new CdnsExporter(fp, MemSink{&mem}, comp));
        else if (run.sink == S_FILE) E.reset(new CdnsExporter(fp, new_name(), comp));
        else { std::string n = new_name(); int fd = open(n.c_str(), O_WRONLY | O_CREAT | O_TRUNC, 0600); E.reset(new CdnsExporter(fp, fd, comp)); }
    } catch (std::exception& e) { fail("ctor-exception", e.what()); return true; }
    std::vector<uint64_t> reported(1, 0);
    auto snapshot = [&](size_t i) { // content of closed output i right now
        if (run.sink == S_MEM) return mem.size() > i ? mem[i] : std::string("<missing>");
        std::string p = names[i] + (run.sink == S_FILE ? ext() : "");
        struct stat st; if (stat(p.c_str(), &st) != 0) return std::string("<missing>");
        return slurp(p);
    };
    bool ok = true; size_t step = 0;
    for (auto& o : h) {
        step++;
        const Pools& P = pools(M.P().tps);
        const std::string* sd = o.sv ? &P.stats_dump[o.sv] : nullptr;
        size_t ret = 0; bool expect = false; bool threw = false; std::string what;
        try {
            switch (o.k) {
            case QR: expect = M.buffer_qr(P.qr[o.a], sd); ret = E->buffer_qr(P.qr[o.a], P.stats[o.sv]); break;
            case AEC: expect = M.buffer_aec(P.aec[o.a], sd); ret = E->buffer_aec(P.aec[o.a], P.stats[o.sv]); break;
            case MM: expect = M.buffer_mm(P.mm[o.a], sd); ret = E->buffer_mm(P.mm[o.a], P.stats[o.sv]); break;
            case WB: expect = M.write_block(); ret = E->write_block(); break;
            case ROTX: case ROTN: case ROTS: {
                bool ex = o.k != ROTN;
                bool wrote = M.rotate(ex); size_t closed = M.outs.size() - 2;
                expect = wrote || !M.outs[closed].blocks.empty();   // header/block or break written
                if (run.sink == S_MEM) ret = E->rotate_output(MemSink{&mem}, ex);
                else if (run.sink == S_FILE) { std::string n; if (o.k == ROTS) { n = names[0]; names.push_back(n); nout++; } else n = new_name(); ret = E->rotate_output(n, ex); }
                else { std::string n = new_name(); int fd = open(n.c_str(), O_WRONLY | O_CREAT | O_TRUNC, 0600); ret = E->rotate_output(fd, ex); }
                reported.back() += ret; reported.push_back(0); ret = expect ? 1 : 0; // sign compared below; bytes accounted to the closed output
                snaps.push_back(snapshot(closed));
                break; }
            case ACT: { bool m = M.set_active(o.a); bool r = E->set_active_block_parameters(o.a); if (m != r) { fail("set-active-result", "set_active_block_parameters(" + std::to_string(o.a) + ") returned " + std::to_string(r)); ok = false; } break; }
            case EDIT: { // edit the hints of the active parameter set in place, the way an application reconfigures a running exporter
                BlockParameters& ref_ = E->get_active_block_parameters_ref(); auto& hh = ref_.storage_parameters.storage_hints;
                if (o.a == 0) { hh.other_data_hints = 0; hh.query_response_hints &= ~((1u << 1) | (1u << 7)); hh.query_response_signature_hints &= ~1u; }
                else { hh.other_data_hints = 3; hh.query_response_hints = 0x3ffff; hh.query_response_signature_hints = 0x1ffff; hh.rr_hints = o.a == 2 ? 0 : 3; }
                M.edit_active(model::from(ref_)); break; }
            case ADDBP: { unsigned mi = M.add_params(model::from(extra)); unsigned li = E->add_block_parameters(extra); if (mi != li) { fail("add-bp-index", "add_block_parameters returned " + std::to_string(li) + ", expected " + std::to_string(mi)); ok = false; } break; }
            }
        } catch (std::exception& e) { threw = true; what = e.what(); }
        if (M.precond_violated) return false;
        R.count("transitions");
        if (threw) { fail("exception|" + tok(o).substr(0, 3) + "|" + msg_class(what), "step " + std::to_string(step) + " " + tok(o) + " threw: " + what); ok = false; break; }
        if (o.k <= WB) reported.back() += ret;
        if (o.k <= ROTS && ((ret > 0) != expect)) { fail("return-sign|" + tok(o).substr(0, 3), "step " + std::to_string(step) + " " + tok(o) + " returned " + std::to_string(ret) + " but the model " + (expect ? "wrote" : "did not write") + " a block"); ok = false; break; }
        if (E->get_block_qr_count() != M.cur.qrs.size() || E->get_block_aec_count() != M.cur.aec.size() || E->get_block_mm_count() != M.cur.mms.size() ||
            E->get_block_item_count() != M.cur.items() || E->get_blocks_written_count() != M.blocks_written || E->get_active_block_parameters() != M.active) {
            fail("counters|" + tok(o).substr(0, 3), "step " + std::to_string(step) + " " + tok(o) + ": counters qr/aec/mm/items/blocks/active = " + std::to_string(E->get_block_qr_count()) + "/" + std::to_string(E->get_block_aec_count()) + "/" +
                 std::to_string(E->get_block_mm_count()) + "/" + std::to_string(E->get_block_item_count()) + "/" + std::to_string(E->get_blocks_written_count()) + "/" + std::to_string(E->get_active_block_parameters()) +
                 " model " + std::to_string(M.cur.qrs.size()) + "/" + std::to_string(M.cur.aec.size()) + "/" + std::to_string(M.cur.mms.size()) + "/" + std::to_string(M.cur.items()) + "/" + std::to_string(M.blocks_written) + "/" + std::to_string(M.active));
            ok = false; break;
        }
    }
    if (state_key && ok) {
        // canonical state = reference-model state + digest of the implementation's private members (two histories are merged only if both agree)
        // abstract key (--abstract): the encoder's position-dependent state (fill level, staged bytes, number of outputs) is left out and the
        // block counter saturates at 2 - position independence of the encoder is C06's exhaustive result, the buffering logic never reads them
        std::ostringstream k;
        if (g_abstract_key) { k << "bpi" << M.cur.bpi << "s" << M.cur.stats << "Q"; for (auto& q : M.cur.qrs) k << std::hash<std::string>()(q) << ","; k << "A"; for (auto& x : M.cur.aec) k << std::hash<std::string>()(x.first) << ":" << std::min<uint64_t>(x.second, 2) << ","; k << "M"; for (auto& m : M.cur.mms) k << std::hash<std::string>()(m) << ","; }
        else k << M.cur.dump();
        k << "|v" << M.cur_version << "|a" << M.active << "|bw" << (g_abstract_key ? std::min<size_t>(M.blocks_written, 2) : M.blocks_written) << "|np" << M.params.size() << "|hp" << M.outs.back().header_params << "|ver";
        for (auto v : M.versions) k << v << ","; for (auto v : M.outs.back().header_versions) k << v << ".";
        // implementation digest through tolerant accessors: a member that no longer exists under this name contributes "?" (and is reported once)
        long fill = PEEK(*E, (long)(o.m_encoder.m_p - o.m_encoder.m_buffer), -1L); uint64_t hsh = 1469598103934665603ULL;
        if (fill >= 0) { const unsigned char* bufp = PEEK(*E, (const unsigned char*)o.m_encoder.m_buffer, (const unsigned char*)nullptr); if (bufp) for (long i = 0; i < fill; i++) { hsh ^= bufp[i]; hsh *= 1099511628211ULL; } }
        if (!g_abstract_key) k << "#f" << fill << "h" << hsh << "bw" << PEEK(*E, (long)o.m_blocks_written, -1L) << "o" << (run.sink == S_MEM ? mem.size() : names.size());
        k << "a" << PEEK(*E, (long)o.m_active_block_parameters, -1L) << "fp" << PEEK(*E, (long)o.m_file_preamble.block_parameters_size(), -1L);
        k << "B" << PEEK(*E, block_digest(o.m_block), std::string("?"));
        *state_key = k.str();
    }
    size_t last_blocks = M.outs.back().blocks.size();
    E.reset();   // destruction closes the last output
    if (!ok) { for (auto& n : names) { unlink((n + ext()).c_str()); unlink((n + ext() + ".part").c_str()); unlink(n.c_str()); } return true; }
    if (last_blocks > 0) reported.back() += 1;
    // ---- outputs
    size_t nouts = M.outs.size();
    if (run.sink == S_MEM && mem.size() != nouts) fail("output-count", "sink saw " + std::to_string(mem.size()) + " outputs, model " + std::to_string(nouts));
    std::map<std::string, size_t> last_of_name; if (run.sink != S_MEM) for (size_t i = 0; i < names.size(); i++) last_of_name[names[i]] = i;
    for (size_t i = 0; i < nouts && i < (run.sink == S_MEM ? mem.size() : names.size()); i++) {
        std::string raw = (i + 1 == nouts) ? snapshot(i) : snaps[i];
        std::string tag = "out" + std::to_string(i);
        if (run.sink == S_FILE) {
            struct stat st; if (stat((names[i] + ext() + ".part").c_str(), &st) == 0) fail("part-left", tag + ": .part file still present after close");
        }
        if (raw == "<missing>") { fail("output-missing", tag + " not found under its final name"); continue; }
        // closed outputs receive no further bytes (names reused later hold the later output)
        if (i + 1 < nouts && (run.sink == S_MEM || last_of_name[names[i]] == i)) { std::string now = snapshot(i); if (now != raw) fail("late-bytes", tag + " changed after the rotation that closed it (" + std::to_string(raw.size()) + " -> " + std::to_string(now.size()) + " bytes)"); }
        std::string bytes = raw;
        if (run.comp == 1 && !gunzip(raw, bytes)) { fail("compressed-stream|gz", tag + ": not a single complete gzip stream"); continue; }
        if (run.comp == 2 && !unxz(raw, bytes)) { fail("compressed-stream|xz", tag + ": not a single complete xz stream"); continue; }
        const model::MOutput& mo = M.outs[i];
        if (bytes.size() != reported[i]) fail("byte-count", tag + ": API calls reported " + std::to_string(reported[i]) + " bytes, output has " + std::to_string(bytes.size()));
        if (mo.blocks.empty()) { if (!bytes.empty()) fail("empty-output-has-bytes", tag + " got " + std::to_string(bytes.size()) + " bytes but no block was written to it"); R.outcome("empty-output"); continue; }
        ref::RFile rf; bool parsed = false;
        try { rf = ref::read_file(bytes); parsed = true; }
        catch (ref::CborError& e) { fail("not-wellformed-cbor", tag + ": " + e.what()); }
        catch (ref::SchemaError& e) { fail("schema|" + msg_class(e.what()), tag + ": " + e.what()); }
        lib::LibFile lf = lib::read_bytes(bytes);
        std::string expect_dump = "P{" + mo.preamble + "}"; for (auto& b : mo.blocks) expect_dump += "|B{" + b.dump() + "}"; expect_dump += "|eof";
        std::string ld = lib::file_dump(lf);
        if (parsed) {
            std::string rd = lib::file_dump(rf);
            bool r_ok = rd == expect_dump, l_ok = ld == expect_dump;
            if (!r_ok || !l_ok) {
                auto diffpos = [](const std::string& a, const std::string& b) { size_t p = 0; while (p < a.size() && p < b.size() && a[p] == b[p]) p++; return p; };
                std::string which = !r_ok && !l_ok ? (rd == ld ? "file-vs-model" : "all-differ") : !r_ok ? "independent-reader-vs-model" : "library-reader-vs-model";
                size_t p = diffpos(r_ok ? ld : rd, expect_dump); size_t a = p > 60 ? p - 60 : 0;
                // classify by the field name preceding the difference
                std::string ctx = expect_dump.substr(a, 120); size_t eq = expect_dump.rfind('=', p); size_t sc = eq == std::string::npos ? std::string::npos : expect_dump.find_last_of(";{[|", eq);
                std::string field = (eq != std::string::npos && sc != std::string::npos && eq > sc) ? expect_dump.substr(sc + 1, eq - sc - 1) : "?";
                fail("roundtrip|" + which + "|" + field, tag + ": " + which + " at " + std::to_string(p) + " expected ..." + ctx + "... got ..." + (r_ok ? ld : rd).substr(a, 120));
            }
            for (size_t bi = 0; bi < rf.blocks.size(); bi++) if (!rf.blocks[bi].unreachable.empty()) fail("unreachable-table-entry|" + rf.blocks[bi].unreachable[0].substr(0, rf.blocks[bi].unreachable[0].find('[')), tag + " block " + std::to_string(bi) + ": " + rf.blocks[bi].unreachable[0] + " not referenced by any item");
            for (size_t bi = 0; bi < rf.blocks.size(); bi++) if (!rf.blocks[bi].duplicates.empty()) fail("duplicate-table-entry|" + rf.blocks[bi].duplicates[0].substr(0, rf.blocks[bi].duplicates[0].find('[')), tag + " block " + std::to_string(bi) + ": " + rf.blocks[bi].duplicates[0]);
            R.outcome("blocks=" + std::to_string(std::min<size_t>(rf.blocks.size(), 4))); R.count("blocks_validated", rf.blocks.size());
        } else if (ld == expect_dump) R.outcome("lib-reads-what-ref-rejects");
    }
    for (auto& n : names) { unlink((n + ext()).c_str()); unlink((n + ext() + ".part").c_str()); unlink(n.c_str()); }
    // model self-check: conservation (guards the model itself)
    { std::vector<std::string> q, m; std::map<std::string, uint64_t> a; for (auto& o : M.outs) for (auto& b : o.blocks) { q.insert(q.end(), b.qrs.begin(), b.qrs.end()); m.insert(m.end(), b.mms.begin(), b.mms.end()); for (auto& x : b.aec) a[x.first] += x.second; }
      q.insert(q.end(), M.cur.qrs.begin(), M.cur.qrs.end()); m.insert(m.end(), M.cur.mms.begin(), M.cur.mms.end()); for (auto& x : M.cur.aec) a[x.first] += x.second;
      if (q != M.submitted_qr || m != M.submitted_mm || a != M.submitted_aec) fail("MODEL-BUG", "model lost a record"); }
    return true;
}

// ------------------------------------------------------------------ profiles
struct Profile { std::vector<std::string> alphabet; std::vector<Cfg> cfgs; std::vector<Run> runs; int depth_q, depth_t; bool auto_flush = false; };

static Profile profile(const std::string& name, bool T) {
    Profile p;
    auto PS = [](uint64_t m, uint64_t tps, int h, int c = 0) { return ParamSpec{m, tps, h, c}; };
    if (name == "flush") {
        p.alphabet = {"qr1", "qr5", "qr6", "qr7", "aec0", "aec1", "aec4", "aec5", "mm1", "wb", "rotx", "act0", "act1", "act7"};
        for (uint64_t m0 : {0, 1, 2, 3}) for (uint64_t m1 : {1, 2}) for (int h : {0, 1, 2})
            p.cfgs.push_back({"m" + std::to_string(m0) + "_" + std::to_string(m1) + "_h" + std::to_string(h), {PS(m0, 1000000, h), PS(m1, 1000000, h)}, PS(2, 1000, 0)});
        // exactly one of the two other-data hint bits set (address events only / malformed messages only)
        p.cfgs.push_back({"m2_1_other2", {PS(2, 1000000, 3), PS(1, 1000000, 3)}, PS(2, 1000, 0)});
        p.cfgs.push_back({"m2_1_other1", {PS(2, 1000000, 8), PS(1, 1000000, 8)}, PS(2, 1000, 0)});
        // limits beyond 32 bits: a limit that is truncated to 2 / 0 items would flush where the model does not
        p.cfgs.push_back({"m2p32plus2_m2p32", {PS((1ULL << 32) + 2, 1000000, 0), PS(1ULL << 32, 1000000, 0)}, PS(2, 1000, 0)});
        p.cfgs.push_back({"m2p63_m2p64m1", {PS(1ULL << 63, 1000000, 0), PS(UINT64_MAX, 1000000, 1)}, PS(2, 1000, 0)});
        p.runs = {{"", S_MEM, 0}}; p.depth_q = 5; p.depth_t = 6;
    } else if (name == "rotate") {
        p.alphabet = {"qr0", "qr3", "aec0", "mm0", "wb", "rotx", "rotn", "rots", "addbp", "act0", "act1"};
        p.cfgs.push_back({"one_m2", {PS(2, 1000000, 0)}, PS(1, 1000, 0, true)});
        p.cfgs.push_back({"two_m1_m3", {PS(1, 1000000, 0), PS(3, 1000, 3, true)}, PS(2, 1, 0)});
        p.runs = {{"", S_FILE, 0}, {"", S_FD, 0}, {"", S_FDS, 0}}; p.depth_q = 4; p.depth_t = 5;
    } else if (name == "rotate-gz") {
        p = profile("rotate", T); p.runs = {{"", S_FILE, 1}, {"", S_FD, 1}, {"", S_FDS, 1}}; p.depth_q = 3; p.depth_t = 4;
    } else if (name == "rotate-xz") {
        p = profile("rotate", T); p.runs = {{"", S_FILE, 2}, {"", S_FD, 2}}; p.alphabet = {"qr0", "aec0", "mm0", "wb", "rotx", "rotn", "rots", "addbp", "act1"}; p.depth_q = 2; p.depth_t = 3;
    } else if (name == "roundtrip") {
        p.alphabet = {"qr0", "qr1s1", "qr2", "qr3s2", "qr4", "qr6", "aec0", "aec1s1", "aec1s2", "aec2", "aec3", "aec4", "mm0", "mm1s2", "mm3", "mm4", "mm5", "wb", "act0", "act1", "rotx"};
        for (int h : {0, 3, 2, 5, 6, 7}) for (uint64_t tps : {1ULL, 1000ULL, 1000000ULL, 1000000000ULL}) for (uint64_t m : {1, 2, 3, 10000}) {   // 6, 7: hint words that keep every other member (the two words differ in every bit)
            if (!T && !((h == 0) || (tps == 1000000 && m == 2) || (h == 3 && tps == 1 && m == 3) || (h == 5 && tps == 1000000000 && m == 10000) || (h == 6 && tps == 1000 && m == 3) || (h == 7 && tps == 1000000 && m == 10000))) continue;
            p.cfgs.push_back({"h" + std::to_string(h) + "_t" + std::to_string(tps) + "_m" + std::to_string(m), {PS(m, tps, h, m == 2), PS(m == 1 ? 2 : 1, tps == 1000 ? 1000000 : 1000, h == 0 ? 3 : 0)}, PS(2, 1000, 0)});
        }
        // tick rates beyond 32 bits (2^32: NTP-style binary fraction; 5 * 10^9)
        p.cfgs.push_back({"h0_t2p32_m2", {PS(2, 1ULL << 32, 0), PS(3, 5000000000ULL, 0)}, PS(2, 1000, 0)});
        p.runs = {{"", S_MEM, 0}}; p.depth_q = 3; p.depth_t = 4;
    } else if (name == "wellformed") {
        p.alphabet = {"qr1", "qr1s3", "qr5s3", "qr0s1", "aec0s3", "mm0", "mm1s3", "mm2s1", "wb", "rotx", "rotn", "rots", "addbp", "act1", "act0"};   // rots: rotation onto the first name again (named outputs)
        p.cfgs.push_back({"m2", {PS(2, 1000000, 0), PS(1, 1000, 1, true)}, PS(3, 1000, 0, true)});
        p.cfgs.push_back({"m0", {PS(0, 1000000, 0, 2)}, PS(1, 1000, 0, 3)});   // collection parameters present but empty
        p.cfgs.push_back({"m10000_h4", {PS(10000, 1, 4), PS(2, 1, 2)}, PS(1, 1000, 0)});
        p.cfgs.push_back({"m2_h6_h7", {PS(2, 1000000, 6), PS(3, 1000, 7)}, PS(1, 1000, 6)});
        p.cfgs.push_back({"m3_emptylists", {PS(3, 1000000, 0, 4)}, PS(1, 1000, 0, 4)});   // opcodes / rr-types present but empty: still mandatory members of the preamble   // hint masks that keep every other member
        p.runs = {{"", S_MEM, 0}, {"m2", S_FILE, 0}, {"m2", S_FILE, 1}}; p.depth_q = 4; p.depth_t = 5;   // named outputs (plain, gzip) for the first configuration: what a name holds after rotations onto it
    } else if (name == "times") {
        p.alphabet = {"qr2", "qr4", "qr3", "qr1", "qr0", "mm0", "mm3", "mm1", "aec0", "act1", "act0", "wb"};
        for (int h : {0, 5, 1}) p.cfgs.push_back({"h" + std::to_string(h), {PS(10000, 1000000, h)}, PS(2, 1000, 0)});
        p.cfgs.push_back({"h5_t1", {PS(10000, 1, 5)}, PS(2, 1000, 0)});
        // two parameter sets whose tick rates differ: the exporter re-uses its block object, so what a block leaves behind (earliest time) meets another rate
        p.cfgs.push_back({"rates_1e9_1e3", {PS(10000, 1000000000, 0), PS(10000, 1000, 0)}, PS(2, 1000, 0)});
        p.cfgs.push_back({"rates_1_1e6", {PS(2, 1, 0), PS(10000, 1000000, 0)}, PS(2, 1000, 0)});
        p.runs = {{"", S_MEM, 0}}; p.depth_q = 5; p.depth_t = 6; p.auto_flush = true;
    } else if (name == "hints-edit") {
        p.alphabet = {"qr0", "qr3", "aec1", "mm0", "edit0", "edit1", "edit2", "wb", "rotx", "rotn", "act1", "act0"};
        p.cfgs.push_back({"two", {PS(2, 1000000, 0), PS(3, 1000, 0)}, PS(2, 1000, 0)});
        p.cfgs.push_back({"one_m10000", {PS(10000, 1000000, 0)}, PS(2, 1000, 0)});
        p.runs = {{"", S_MEM, 0}}; p.depth_q = 4; p.depth_t = 5; p.auto_flush = true;
    } else if (name == "counts") {
        p.alphabet = {"qr0s1", "qr1", "qr4", "aec1", "mm0", "mm3s2", "wb", "rotx", "rotn", "rots", "act1"};   // rots: rotation onto the first name again (named outputs)
        p.cfgs.push_back({"m2", {PS(2, 1000000, 0), PS(1, 1000, 3, true)}, PS(3, 1000, 0)});
        p.cfgs.push_back({"m2_emptycp", {PS(2, 1000000, 0, 2), PS(1, 1000, 3, 2)}, PS(3, 1000, 0, 2)});   // collection parameters present but empty
        p.cfgs.push_back({"m1_cp1", {PS(1, 1000000, 0, 3)}, PS(3, 1000, 0, 2)});
        p.runs = {{"", S_MEM, 0}, {"", S_MEM, 1}, {"", S_FD, 0}, {"", S_FILE, 0}, {"", S_FDS, 0}}; p.depth_q = 3; p.depth_t = 4;
        if (T) { p.runs.push_back({"", S_MEM, 2}); p.runs.push_back({"", S_FILE, 1}); }
    }
    return p;
}

int main(int argc, char** argv) {
    Args a = Args::parse(argc, argv);
    g_dir = scratch_dir(); g_profile = a.mode;
    Result total;
    bool T = a.thorough();
    Profile pf = profile(a.mode, T);
    if (pf.alphabet.empty()) { fprintf(stderr, "unknown profile %s\n", a.mode.c_str()); rm_rf(g_dir); return 2; }
    std::vector<Op> alpha; for (auto& t : pf.alphabet) { Op o; parse_tok(t, o); alpha.push_back(o); }
    if (!a.replay.empty()) {
        // replay format: cfg=<name>;sink=<n>;comp=<n>;ops=tok,tok,...
        std::string s = slurp(a.replay); std::map<std::string, std::string> kv; size_t p = 0;
        while (p < s.size()) { size_t e = s.find(';', p); if (e == std::string::npos) e = s.size(); std::string part = s.substr(p, e - p); size_t q = part.find('='); if (q != std::string::npos) kv[part.substr(0, q)] = part.substr(q + 1); p = e + 1; }
        const Cfg* cfg = nullptr; for (auto& c : profile(a.mode, true).cfgs) if (c.name == kv["cfg"]) { static Cfg keep; keep = c; cfg = &keep; }
        if (!cfg) { fprintf(stderr, "unknown cfg\n"); rm_rf(g_dir); return 2; }
        std::vector<Op> h; std::string ops = kv["ops"]; while (!ops.empty() && (ops.back() == '\n' || ops.back() == ' ')) ops.pop_back();
        p = 0; while (p < ops.size()) { size_t e = ops.find(',', p); if (e == std::string::npos) e = ops.size(); Op o; if (e > p && parse_tok(ops.substr(p, e - p), o)) h.push_back(o); p = e + 1; }
        Run run{"", atoi(kv["sink"].c_str()), atoi(kv["comp"].c_str())};
        Pool rp(1, 60);
        if (pf.auto_flush) h.push_back(Op{WB, 0, 0});
        rp.run(1, [&](uint64_t, Result& R) { std::vector<Viol> V; run_history(*cfg, run, h, R, V); for (auto& v : V) R.violation(a.mode + "|" + v.key, v.what, s); },
               [&](uint64_t, const std::string& d, Result& R) { R.violation(a.mode + "|" + crash_key(d), "crash: " + d.substr(0, 2000), s); }, total);
        a.finish(total); rm_rf(g_dir); return total.viol.empty() ? 0 : 1;
    }
    int D = T ? pf.depth_t : pf.depth_q; if (a.kv.count("depth")) D = atoi(a.kv["depth"].c_str());
    size_t A = alpha.size();
    // tasks: (cfg, run, first two ops)  -- every history of length <= D is executed (stateless)
    struct Task { size_t cfg, run; int o1, o2; };  // o1 = -1: the empty history; o2 = -1: histories of length 1
    std::vector<Task> tasks;
    for (size_t c = 0; c < pf.cfgs.size(); c++) for (size_t r = 0; r < pf.runs.size(); r++) {
        if (!pf.runs[r].cfg.empty() && pf.runs[r].cfg != pf.cfgs[c].name) continue;   // a run restricted to one configuration
        tasks.push_back({c, r, -1, -1});
        for (size_t i = 0; i < A; i++) { tasks.push_back({c, r, (int)i, -1}); if (D >= 2) for (size_t j = 0; j < A; j++) tasks.push_back({c, r, (int)i, (int)j}); }
    }
    if (a.kv.count("bfs")) {
        // explicit-state search with de-duplication: state = history reaching it (replayed on a fresh exporter), frontier expanded breadth first,
        // every transition executed on the real object and fully checked (incl. the outputs after destruction); extensions of an already seen state are pruned
        int DB = atoi(a.kv["bfs"].c_str()); g_abstract_key = a.kv.count("abstract") > 0;
        struct BT { size_t cfg, run; }; std::vector<BT> bts; for (size_t c = 0; c < pf.cfgs.size(); c++) for (size_t r = 0; r < pf.runs.size(); r++) { if (pf.cfgs[c].sets[0].max_items >= (1ULL << 32)) continue; if (!pf.runs[r].cfg.empty() && pf.runs[r].cfg != pf.cfgs[c].name) continue;   // a block that is never full has no finite abstract state space: stateless search only
            bts.push_back({c, r}); }
        Pool bp(a.jobs);
        bp.run(bts.size(), [&](uint64_t ti, Result& R) {
            const Cfg& cfg = pf.cfgs[bts[ti].cfg]; const Run& run = pf.runs[bts[ti].run];
            std::set<std::string> seen; std::deque<std::vector<Op>> frontier; std::string k0; { std::vector<Viol> V; run_history(cfg, run, {}, R, V, &k0); } seen.insert(k0); frontier.push_back({}); size_t maxd = 0;
            while (!frontier.empty()) {
                std::vector<Op> h = frontier.front(); frontier.pop_front(); if ((int)h.size() >= DB) continue;
                if (a.expired()) { R.deadline_hit = true; break; }
                for (auto& op : alpha) {
                    std::vector<Op> h2 = h; h2.push_back(op); std::string rep = "cfg=" + cfg.name + ";sink=" + std::to_string(run.sink) + ";comp=" + std::to_string(run.comp) + ";ops=" + hist_str(h2); set_note(rep);
                    std::vector<Viol> V; std::string key; bool counted = run_history(cfg, run, h2, R, V, &key);
                    if (!counted) { R.count("pruned_precondition"); continue; }
                    R.count("traces"); R.count("nontrivial"); R.count("bfs_transitions");
                    for (auto& v : V) R.violation(a.mode + "|" + v.key, v.what, rep);
                    if (!V.empty() || key.empty()) continue;
                    if (seen.insert(key).second) { frontier.push_back(h2); maxd = std::max(maxd, h2.size()); }
                }
            }
            R.count("states", seen.size()); R.outcome("cfg-" + cfg.name + ":states=" + std::to_string(seen.size()) + ":depth=" + std::to_string(maxd));
            R.sample("cfg=" + cfg.name + ": " + std::to_string(seen.size()) + " distinct states, deepest new state at depth " + std::to_string(maxd) + " (bound " + std::to_string(DB) + ")");
            if ((int)maxd < DB) R.count("bfs_fixpoints");   // no new state at the last explored depths: the reachable state space is exhausted
        }, [&](uint64_t, const std::string& d, Result& R) { R.violation(a.mode + "|" + crash_key(d), "worker crashed running " + bp.last_note + ": " + d.substr(0, 2000), bp.last_note); }, total);
        total.n["evaluations"] = total.n["traces"]; total.n["transitions"] = total.n["bfs_transitions"];
        total.notes.push_back("BFS with state de-duplication, depth bound " + std::to_string(DB) + ", state key = model state + digest of exporter/encoder/block private members");
        a.finish(total); rm_rf(g_dir); return 0;
    }
    Pool pool(a.jobs);
    std::set<std::string> model_states;
    pool.run(tasks.size(), [&](uint64_t ti, Result& R) {
        const Task& t = tasks[ti]; const Cfg& cfg = pf.cfgs[t.cfg]; const Run& run = pf.runs[t.run];
        auto exec = [&](const std::vector<Op>& h) {
            if (a.expired()) { R.deadline_hit = true; return; }
            std::string rep = "cfg=" + cfg.name + ";sink=" + std::to_string(run.sink) + ";comp=" + std::to_string(run.comp) + ";ops=" + hist_str(h);
            set_note(rep);
            std::vector<Op> hx = h; if (pf.auto_flush) hx.push_back(Op{WB, 0, 0});
            std::vector<Viol> V; bool counted = run_history(cfg, run, hx, R, V);
            if (!counted) { R.count("pruned_precondition"); return; }
            R.count("traces"); if (!h.empty()) R.count("nontrivial");
            for (auto& v : V) R.violation(a.mode + "|" + v.key, v.what, rep);
            if (V.empty()) R.outcome("ok"); else R.outcome("viol:" + V[0].key);
            if ((R.n["traces"] % 200003) == 7) R.sample(rep);
        };
        if (t.o1 < 0) { exec({}); return; }
        if (t.o2 < 0) { exec({alpha[t.o1]}); return; }
        std::vector<Op> h = {alpha[t.o1], alpha[t.o2]};
        // all extensions of the two-op prefix up to depth D, every length (DFS, odometer)
        std::function<void(int)> rec = [&](int d) { exec(h); if (d == D || R.deadline_hit) return; for (size_t i = 0; i < A; i++) { h.push_back(alpha[i]); rec(d + 1); h.pop_back(); } };
        rec(2);
    }, [&](uint64_t ti, const std::string& d, Result& R) {
        R.violation(a.mode + "|" + crash_key(d), "worker crashed running " + pool.last_note + ": " + d.substr(0, 2000), pool.last_note);
    }, total);
    total.n["evaluations"] = total.n["traces"];
    total.n["states"] = total.n["traces"];   // stateless search: every history prefix is a distinct node of the execution tree
    total.notes.push_back("profile " + a.mode + ": alphabet " + std::to_string(A) + " ops, " + std::to_string(pf.cfgs.size()) + " configurations x " + std::to_string(pf.runs.size()) + " sink kinds, every history of length 0.." + std::to_string(D));
    a.finish(total);
    rm_rf(g_dir);
    return 0;
}
