// E-FAULT: every crash point (C15) and every write fault (C16) of a set of scenarios, on the real
// exporter writing to real files, with write/writev/rename interposed in this executable.
#include "util.hpp"
#include "pools.hpp"
#include "libdump.hpp"
#include <sys/uio.h>
#include <sys/syscall.h>
#include <dirent.h>
#include <errno.h>
#include <zlib.h>
#include <lzma.h>
using namespace vh;
using namespace CDNS;

// ------------------------------------------------------------------ interposition
static std::string g_track;            // only calls on paths under this directory are counted
static int g_mode = 0;                 // 0 passthrough, 1 trace, 2 crash before call k, 3 fault at call k
static long g_count = 0, g_k = -1;
static int g_fault = 0;                // 1 ENOSPC, 2 EIO, 3 short
static bool g_persistent = false; static std::string g_fault_path; static bool g_fault_hit = false;
struct Call { char kind; std::string path; size_t size; };
static std::vector<Call> g_trace;

static std::string fd_path(int fd) { char l[64], b[4096]; snprintf(l, sizeof l, "/proc/self/fd/%d", fd); ssize_t n = readlink(l, b, sizeof b - 1); if (n <= 0) return ""; b[n] = 0; return b; }
static bool tracked(const std::string& p) { return !g_track.empty() && p.compare(0, g_track.size(), g_track) == 0 && p.find("/healthy") == std::string::npos; }

// returns: 0 proceed normally, 1 fail with errno set, 2 short write of `shortn`
static int gate(char kind, const std::string& path, size_t size, size_t& shortn) {
    if (g_mode == 0 || !tracked(path)) return 0;
    g_count++;
    if (g_mode == 1) { g_trace.push_back({kind, path, size}); return 0; }
    if (g_mode == 2) { if (g_count == g_k) _exit(77); return 0; }
    if (g_mode == 3 && kind != 'r') {
        bool hit = (g_count == g_k) || (g_persistent && g_fault_hit && path == g_fault_path);
        if (hit) { g_fault_hit = true; g_fault_path = path; if (g_fault == 3) { shortn = size > 1 ? size / 2 : 0; if (size <= 1) { errno = ENOSPC; return 1; } return 2; } if (g_fault == 4) return 3; errno = g_fault == 1 ? ENOSPC : g_fault == 5 ? EINTR : EIO; return 1; }
    }
    return 0;
}
extern "C" ssize_t write(int fd, const void* buf, size_t n) {
    size_t sn = 0; int g = gate('w', fd_path(fd), n, sn);
    if (g == 1) return -1; if (g == 2) return syscall(SYS_write, fd, buf, sn); if (g == 3) return 0;   // 3: the call transfers nothing and reports 0
    return syscall(SYS_write, fd, buf, n);
}
extern "C" ssize_t writev(int fd, const struct iovec* iov, int cnt) {
    size_t total = 0; for (int i = 0; i < cnt; i++) total += iov[i].iov_len;
    size_t sn = 0; int g = gate('v', fd_path(fd), total, sn);
    if (g == 1) return -1; if (g == 3) return 0;
    if (g == 2) { // write only the first sn bytes
        size_t left = sn; ssize_t done = 0; for (int i = 0; i < cnt && left; i++) { size_t l = std::min(left, iov[i].iov_len); ssize_t r = syscall(SYS_write, fd, iov[i].iov_base, l); if (r < 0) return done ? done : -1; done += r; left -= l; } return done; }
    return syscall(SYS_writev, fd, iov, cnt);
}
extern "C" int rename(const char* a, const char* b) { size_t sn; gate('r', a, 0, sn); return (int)syscall(SYS_rename, a, b); }

// passive observers of the codec calls (the real functions run unchanged): did finishing a stream need more than one pass?
#include <dlfcn.h>
static uint64_t g_gz_finish_more = 0, g_xz_finish_more = 0;
extern "C" int deflate(z_streamp s, int flush) { static auto real = (int (*)(z_streamp, int))dlsym(RTLD_NEXT, "deflate"); int r = real(s, flush); if (flush == Z_FINISH && r == Z_OK) g_gz_finish_more++; return r; }
extern "C" lzma_ret lzma_code(lzma_stream* s, lzma_action act) { static auto real = (lzma_ret (*)(lzma_stream*, lzma_action))dlsym(RTLD_NEXT, "lzma_code"); lzma_ret r = real(s, act); if (act == LZMA_FINISH && r == LZMA_OK) g_xz_finish_more++; return r; }

// ------------------------------------------------------------------ scenarios
struct Step { char op; int n; std::string name; bool exp; };      // 'Q' buffer n records, 'R' rotate(name, exp), 'W' write_block
struct Scenario { std::string name; int comp; bool fd; std::vector<Step> steps; std::string preexisting; bool stale_part = false; bool devnull_first = false; int long_path = 0; };   // long_path: length of the final path of every output (reached through a padded directory name)
static const char* ext_of(int comp) { return comp == 1 ? ".gz" : comp == 2 ? ".xz" : ""; }

static std::vector<Scenario> scenarios(bool fd_too) {
    std::vector<Scenario> v;
    for (int comp = 0; comp < 3; comp++) for (int fd = 0; fd < (fd_too ? 2 : 1); fd++) {
        std::string c = std::string(comp == 0 ? "plain" : comp == 1 ? "gzip" : "xz") + (fd ? "-fd" : "");
        v.push_back({"single-" + c, comp, (bool)fd, {{'Q', 3, "", false}}, ""});
        v.push_back({"rotations-" + c, comp, (bool)fd, {{'Q', 2, "", false}, {'R', 0, "outB", true}, {'Q', 3, "", false}, {'R', 0, "outC", false}, {'Q', 1, "", false}, {'R', 0, "outD", true}}, ""});
        if (!fd) v.push_back({"onto-existing-" + c, comp, false, {{'Q', 2, "", false}, {'R', 0, "outE", true}, {'Q', 2, "", false}, {'R', 0, "outF", false}}, "outE"});
        if (!fd) v.push_back({"back-to-first-" + c, comp, false, {{'Q', 2, "", false}, {'R', 0, "outB", false}, {'Q', 2, "", false}, {'R', 0, "outA", true}, {'Q', 3, "", false}}, ""});
        if (!fd) v.push_back({"onto-current-" + c, comp, false, {{'Q', 2, "", false}, {'R', 0, "outA", true}, {'Q', 3, "", false}, {'R', 0, "outA", false}, {'Q', 2, "", false}}, ""});   // rotation onto the very name being written
        // high-entropy records: the compressor still holds several KB when the output is closed, so finishing the stream takes several passes
        v.push_back({"entropy-single-" + c, comp, (bool)fd, {{'H', 5, "", false}}, ""});
        if (!fd) v.push_back({"entropy-rotations-" + c, comp, false, {{'H', 4, "", false}, {'R', 0, "outB", true}, {'H', 3, "", false}, {'R', 0, "outA", true}, {'H', 2, "", false}}, ""});
        // a previous run died and left '<name><suffix>.part' files behind (for the first output and for a rotation target): they must not leak into the new outputs
        if (!fd) v.push_back({"stale-part-" + c, comp, false, {{'Q', 2, "", false}, {'R', 0, "outB", true}, {'Q', 1, "", false}}, "", true});
        // the first name is a symbolic link to /dev/null ("discard until the first rotation"): the later outputs are ordinary names and get the ordinary treatment
        if (!fd) { v.push_back({"from-devnull-" + c, comp, false, {{'Q', 2, "", false}, {'R', 0, "outB", true}, {'Q', 3, "", false}}, "", false}); v.back().devnull_first = true; }
        // final paths of exactly 255 and of 252 characters (limits of fixed-size name buffers: NAME_MAX is 255)
        if (!fd) for (int L : {255, 252}) { v.push_back({"path" + std::to_string(L) + "-" + c, comp, false, {{'Q', 2, "", false}, {'R', 0, "outB", true}, {'Q', 1, "", false}}, ""}); v.back().long_path = L; }
        // the output ends exactly at the end of the staging buffer when it is rotated: the closing break needs a flush of its own (one more fault point)
        v.push_back({"aligned-" + c, comp, (bool)fd, {{'A', 1, "", false}, {'R', 0, "outB", true}, {'Q', 2, "", false}}, ""});
        v.push_back({"buffered-unwritten-" + c, comp, (bool)fd, {{'Q', 1, "", false}}, ""});
        v.push_back({"nothing-" + c, comp, (bool)fd, {}, ""});
    }
    return v;
}

static bool decompress(int comp, const std::string& z, std::string& out) {
    out.clear(); if (comp == 0) { out = z; return true; } if (z.empty()) return false;
    if (comp == 1) { z_stream s; memset(&s, 0, sizeof s); if (inflateInit2(&s, 31) != Z_OK) return false; s.next_in = (Bytef*)z.data(); s.avail_in = z.size(); char buf[65536]; int r;
        do { s.next_out = (Bytef*)buf; s.avail_out = sizeof buf; r = inflate(&s, Z_NO_FLUSH); out.append(buf, sizeof buf - s.avail_out); } while (r == Z_OK); size_t left = s.avail_in; inflateEnd(&s); return r == Z_STREAM_END && left == 0; }
    lzma_stream s = LZMA_STREAM_INIT; if (lzma_stream_decoder(&s, UINT64_MAX, 0) != LZMA_OK) return false; s.next_in = (const uint8_t*)z.data(); s.avail_in = z.size(); uint8_t buf[65536]; lzma_ret r;
    do { s.next_out = buf; s.avail_out = sizeof buf; r = lzma_code(&s, LZMA_FINISH); out.append((char*)buf, sizeof buf - s.avail_out); } while (r == LZMA_OK); size_t left = s.avail_in; lzma_end(&s); return r == LZMA_STREAM_END && left == 0;
}

static GenericQueryResponse big_record(int i) { static Pools P = make_pools(1000000); GenericQueryResponse q = P.qr[0]; q.query_name = std::string(3000 + i, (char)('a' + i % 26)); q.client_port = 1000 + i; q.transaction_id = i; return q; }

static GenericQueryResponse entropy_record(int i) { GenericQueryResponse q = big_record(i); std::string n(3000 + i, 0); uint64_t x = 88172645463325252ULL + i; for (auto& ch : n) { x ^= x << 13; x ^= x >> 7; x ^= x << 17; ch = (char)x; } q.query_name = n; return q; }

// length of the last string of a one-record block with which the encoder's 2 KiB staging buffer is EXACTLY full when the block has been written
// (found by trying every length on an in-memory exporter; the closing break then needs a flush of its own)
static GenericQueryResponse aligned_record(const FilePreamble& fp0) {
    static int L = -1;
    if (L < 0) for (int l = 1; l <= 2100 && L < 0; l++) { FilePreamble fp = fp0; std::vector<std::string> outs; CdnsExporter e(fp, MemSink{&outs}, CborOutputCompression::NO_COMPRESSION);
        GenericQueryResponse q = big_record(0); q.query_name = std::string(100, 'q'); q.round_trip_time = boost::none; q.country_code = std::string(l, 'C'); e.buffer_qr(q); e.write_block(); if (e.m_encoder.m_avail == 0) L = l; }
    if (L < 0) { fprintf(stderr, "no aligning length found\n"); _exit(2); }
    GenericQueryResponse q = big_record(0); q.query_name = std::string(100, 'q'); q.round_trip_time = boost::none; q.country_code = std::string(L, 'C'); return q;
}

struct RunLog {
    std::vector<std::string> events;              // per API call: "ok" / "exc:<what>"
    std::vector<std::string> closed_paths;        // path of each output in order of opening
    std::vector<std::string> snap;                // content of output i right after the rotation that closed it ("" if not closed by rotation)
    std::vector<bool> rotate_returned;            // rotation i returned normally
    bool recovered_rotate = false, recovery_attempted = false; std::string recovery_error; size_t buffered_before_fail = 0, buffered_after_fail = 0; bool block_write_failed = false; int failed_step = -1;
    std::vector<int> recs_in_failed_block;        // record ids buffered when the block write failed
    int rotations_ok = 0; bool failed = false; bool final_rotate_ok = false; bool retry_rotate_ok = false; bool failed_before_final = false; size_t bytes_before_final = 0;   // uncompressed bytes the API reported for the last scenario output before the final rotation
};

// Runs a scenario in `dir`. protocol=false: plain run (C15). protocol=true: C16 driver (react to the first exception).
static void run_scenario(const Scenario& sc, const std::string& dir, bool protocol, RunLog& log) {
    BlockParameters bp; bp.storage_parameters.max_block_items = 2; std::vector<BlockParameters> bps = {bp}; FilePreamble fp(bps);
    auto comp = sc.comp == 1 ? CborOutputCompression::GZIP : sc.comp == 2 ? CborOutputCompression::XZ : CborOutputCompression::NO_COMPRESSION;
    auto final_path = [&](const std::string& n) { return dir + "/" + n + (sc.fd ? "" : ext_of(sc.comp)); };
    auto open_fd = [&](const std::string& n) { return open((dir + "/" + n).c_str(), O_WRONLY | O_CREAT | O_TRUNC, 0600); };
    std::unique_ptr<CdnsExporter> e;
    try { if (sc.fd) e.reset(new CdnsExporter(fp, open_fd("outA"), comp)); else e.reset(new CdnsExporter(fp, dir + "/outA", comp)); } catch (std::exception& x) { log.events.push_back(std::string("ctor-exc:") + x.what()); return; }
    log.closed_paths.push_back(final_path("outA"));
    int rec = 0; std::vector<int> buffered; bool failed = false; size_t cur_bytes = 0;
    for (size_t si = 0; si < sc.steps.size() && !failed; si++) {
        const Step& st = sc.steps[si];
        if (st.op == 'Q' || st.op == 'H') for (int i = 0; i < st.n && !failed; i++) {
            size_t before = e->get_block_item_count();
            try { buffered.push_back(rec); size_t r = e->buffer_qr(st.op == 'H' ? entropy_record(rec) : big_record(rec)); rec++; cur_bytes += r; if (r > 0) buffered.clear(); log.events.push_back("ok"); }
            catch (std::exception& x) { rec++; log.events.push_back(std::string("exc:") + x.what()); failed = true; log.block_write_failed = true; log.failed_step = (int)si; log.buffered_before_fail = before + 1; log.buffered_after_fail = e->get_block_item_count(); log.recs_in_failed_block = buffered; }
        }
        else if (st.op == 'A') { // one record whose block ends exactly at the end of the staging buffer, written explicitly
            size_t before = e->get_block_item_count();
            try { buffered.push_back(rec); size_t r = e->buffer_qr(aligned_record(fp)); rec++; cur_bytes += r; r = e->write_block(); cur_bytes += r; buffered.clear(); log.events.push_back("ok"); }
            catch (std::exception& x) { rec++; log.events.push_back(std::string("exc:") + x.what()); failed = true; log.block_write_failed = true; log.failed_step = (int)si; log.buffered_before_fail = before + 1; log.buffered_after_fail = e->get_block_item_count(); log.recs_in_failed_block = buffered; }
        }
        else if (st.op == 'R') {
            try {
                if (sc.fd) e->rotate_output(open_fd(st.name), st.exp); else e->rotate_output(dir + "/" + st.name, st.exp);
                if (st.exp) buffered.clear(); cur_bytes = 0;
                log.events.push_back("ok"); log.rotate_returned.push_back(true); log.rotations_ok++;
            } catch (std::exception& x) { log.events.push_back(std::string("exc:") + x.what()); log.rotate_returned.push_back(false); failed = true; log.failed_step = (int)si; }
            log.snap.resize(log.closed_paths.size()); log.snap.back() = slurp(log.closed_paths.back());
            log.closed_paths.push_back(final_path(st.name));
        }
    }
    log.failed = failed;
    log.failed_before_final = failed; log.bytes_before_final = cur_bytes;
    if (protocol) {
        // documented reaction: after an exception rotate to a healthy destination without exporting, then write the block.
        // A rotation that throws is retried once (to a second healthy destination) - that is what "try to rotate output" means for an application.
        log.recovery_attempted = true;
        auto rot = [&](const std::string& hp, bool exp) { if (sc.fd) { int fd = open(hp.c_str(), O_WRONLY | O_CREAT | O_TRUNC, 0600); e->rotate_output(fd, exp); } else e->rotate_output(hp, exp); };
        try {
            rot(dir + "/healthy", !failed);
            log.recovered_rotate = true; log.final_rotate_ok = true; log.rotate_returned.push_back(true);
        } catch (std::exception& x) {
            log.recovery_error = x.what(); log.rotate_returned.push_back(false); failed = true;
            try { rot(dir + "/healthy2", false); log.recovered_rotate = true; log.retry_rotate_ok = true; log.recovery_error.clear(); } catch (std::exception& y) { log.recovery_error = std::string("retry: ") + y.what(); }
        }
        if (log.recovered_rotate) { log.snap.resize(log.closed_paths.size()); log.snap.back() = slurp(log.closed_paths.back()); }
        if (failed && log.recovered_rotate) { try { e->write_block(); } catch (std::exception& x) { log.recovery_error = std::string("write_block after recovery: ") + x.what(); } }
    }
    e.reset();
}

static std::map<std::string, std::string> list_dir(const std::string& dir) {
    std::map<std::string, std::string> m; DIR* d = opendir(dir.c_str()); if (!d) return m;
    while (dirent* e = readdir(d)) { std::string n = e->d_name; if (n == "." || n == "..") continue; m[n] = slurp(dir + "/" + n); }
    closedir(d); return m;
}
static void clean_dir(const std::string& dir) { for (auto& kv : list_dir(dir)) unlink((dir + "/" + kv.first).c_str()); }

struct FV { std::string key, what; };

int main(int argc, char** argv) {
    Args a = Args::parse(argc, argv); std::string top = scratch_dir(); Result total; bool T = a.thorough();
    auto done = [&](int rc) { a.finish(total); rm_rf(top); return rc; };
    bool crash_mode = a.mode == "crash";
    auto scs = scenarios(!crash_mode);
    std::string preexisting_plain;   // an older complete file for the onto-existing scenarios

    // one task per scenario; each explores all of its k (and fault kinds) in forked grandchildren
    auto explore = [&](const Scenario& sc, Result& R, long only_k, int only_fault, int only_persist) {
        std::string dir = top + "/t" + std::to_string(getpid()); mkdir(dir.c_str(), 0700);
        if (sc.long_path) { size_t fixed = dir.size() + 1 + 1 + 4 + strlen(ext_of(sc.comp)); if ((size_t)sc.long_path <= fixed + 1) { fprintf(stderr, "scratch path too long for the long-path scenario\n"); _exit(2); } dir += "/" + std::string(sc.long_path - fixed, 'd'); mkdir(dir.c_str(), 0700); }
        g_track = dir;
        auto prepare = [&]() { clean_dir(dir);
            if (sc.devnull_first) { if (symlink("/dev/null", (dir + "/outA" + ext_of(sc.comp)).c_str()) != 0) { fprintf(stderr, "symlink failed\n"); _exit(2); } }
            if (sc.stale_part) for (const char* n : {"outA", "outB"}) { std::string junk(20000, 0); for (size_t i = 0; i < junk.size(); i++) junk[i] = (char)(i * 7 + 3); spit(dir + "/" + n + ext_of(sc.comp) + ".part", junk); }
            if (!sc.preexisting.empty()) {
            // older complete output of the same kind under the final name
            BlockParameters bp; std::vector<BlockParameters> bps = {bp}; FilePreamble fp(bps);
            { CdnsExporter e(fp, dir + "/" + sc.preexisting, sc.comp == 1 ? CborOutputCompression::GZIP : sc.comp == 2 ? CborOutputCompression::XZ : CborOutputCompression::NO_COMPRESSION); e.buffer_qr(big_record(99)); e.write_block(); } } };
        // ---- trace run
        prepare(); std::map<std::string, std::string> initial = list_dir(dir);
        uint64_t fm0 = g_gz_finish_more, fx0 = g_xz_finish_more;
        g_mode = 1; g_count = 0; g_trace.clear(); RunLog ref_log; run_scenario(sc, dir, !crash_mode, ref_log); g_mode = 0;
        R.count("gz_finish_multipass", g_gz_finish_more - fm0); R.count("xz_finish_multipass", g_xz_finish_more - fx0);
        std::vector<Call> trace = g_trace; long K = (long)trace.size();
        std::map<std::string, std::string> final_files = list_dir(dir);
        R.count("scenario_calls", K);
        // legit complete versions per final name
        std::map<std::string, std::set<std::string>> legit;
        for (auto& kv : initial) legit[kv.first].insert(kv.second);
        for (size_t i = 0; i < ref_log.closed_paths.size(); i++) { std::string n = ref_log.closed_paths[i].substr(dir.size() + 1); legit[n].insert(i < ref_log.snap.size() && i + 1 < ref_log.closed_paths.size() ? ref_log.snap[i] : (final_files.count(n) ? final_files[n] : std::string())); }
        for (auto& kv : final_files) legit[kv.first].insert(kv.second);
        // self-check of the uninterrupted run: all data writes go to *.part (named), every non-empty legit version is a complete valid file
        if (!sc.fd) for (auto& c : trace) if (c.kind != 'r' && (c.path.size() < 5 || c.path.compare(c.path.size() - 5, 5, ".part") != 0)) R.violation("fault|data-written-to-final-name|" + sc.name, "data written to " + (c.path.size() > dir.size() && c.path.compare(0, dir.size(), dir) == 0 ? c.path.substr(dir.size()) : c.path), "scenario=" + sc.name + ";k=0");
        for (auto& kv : legit) for (auto& content : kv.second) if (!content.empty() && kv.first.find(".part") == std::string::npos) { std::string plain; bool ok = decompress(sc.comp, content, plain); if (ok && !plain.empty()) { try { ref::read_file(plain); } catch (std::exception& x) { ok = false; } } if (!ok) R.violation("fault|uninterrupted-output-invalid|" + sc.name, kv.first + " of the uninterrupted run is not a complete valid file", "scenario=" + sc.name + ";k=0"); }
        if (crash_mode) {
            for (long k = 1; k <= K; k++) {
                if (only_k >= 0 && k != only_k) continue;
                prepare(); fflush(stdout); fflush(stderr);
                pid_t p = fork(); if (p == 0) { g_mode = 2; g_count = 0; g_k = k; RunLog l; run_scenario(sc, dir, false, l); _exit(0); }
                int st = 0; waitpid(p, &st, 0);
                R.count("traces"); std::string rep = "scenario=" + sc.name + ";k=" + std::to_string(k);
                if (!(WIFEXITED(st) && WEXITSTATUS(st) == 77)) { R.violation("fault|crash-point-not-reached", "child did not stop at call " + std::to_string(k) + " of " + std::to_string(K), rep); continue; }
                R.count("nontrivial");
                const Call& c = trace[k - 1]; std::string phase = std::string(1, c.kind) + (c.path.find(".part") != std::string::npos ? "part" : "final");
                for (auto& kv : list_dir(dir)) {
                    if (kv.first.size() >= 5 && kv.first.compare(kv.first.size() - 5, 5, ".part") == 0) continue;
                    if (!legit[kv.first].count(kv.second)) { std::string plain; bool complete = decompress(sc.comp, kv.second, plain); bool valid = false; if (complete) { try { ref::read_file(plain); valid = true; } catch (std::exception&) {} }
                        R.violation("fault|partial-file-under-final-name|" + std::string(sc.comp == 0 ? "plain" : sc.comp == 1 ? "gzip" : "xz"), "killed before output call " + std::to_string(k) + "/" + std::to_string(K) + " (" + phase + "): " + kv.first + " holds " + std::to_string(kv.second.size()) + " bytes that are none of its complete versions (complete stream: " + std::to_string(complete) + ", valid file: " + std::to_string(valid) + ")", rep); }
                }
                R.outcome(sc.name.substr(0, sc.name.find('-')) + ":" + phase);
            }
            R.sample("scenario=" + sc.name + ";output calls K=" + std::to_string(K) + ";every k in 1..K");
        } else {
            // ---- fault mode (C16)
            bool hung = false;
            for (long k = 1; k <= K; k++) { if (trace[k - 1].kind == 'r') continue; for (int fault = 1; fault <= 5; fault++) for (int persist = 0; persist < 2; persist++) {
                // fault 5: write() returns -1 with EINTR (interrupted before any byte was transferred) - once, descriptor outputs only. Retrying and reporting are both fine; losing the bytes silently is not.
                if (fault == 5 && (!sc.fd || persist)) continue;
                // fault 4: write() transfers nothing and returns 0 - descriptor outputs only (for named outputs libstdc++ itself retries for ever, which says nothing about c-dns);
                // persistent only; after the first hang of a scenario its remaining fault-4 cases are skipped
                if (fault == 4 && (!sc.fd || !persist || hung)) continue;
                if (only_k >= 0 && !(k == only_k && fault == only_fault && persist == only_persist)) continue;
                prepare(); fflush(stdout); fflush(stderr);
                std::string rf = top + "/res" + std::to_string(getpid());
                pid_t p = fork();
                if (p == 0) {
                    alarm(fault == 4 ? 5 : 60); g_mode = 3; g_count = 0; g_k = k; g_fault = fault; g_persistent = persist; g_fault_hit = false; RunLog l; run_scenario(sc, dir, true, l); g_mode = 0;
                    std::ofstream o(rf); o << (g_fault_hit ? 1 : 0) << "\n" << l.block_write_failed << " " << l.failed_step << " " << l.buffered_before_fail << " " << l.buffered_after_fail << " " << l.recovered_rotate << "\n";
                    o << l.rotate_returned.size(); for (bool b : l.rotate_returned) o << " " << b; o << "\n"; o << l.recs_in_failed_block.size(); for (int r : l.recs_in_failed_block) o << " " << r; o << "\n";
                    o << l.events.size() << "\n"; for (auto& e : l.events) o << e.substr(0, 3) << "\n"; o << l.recovery_error << "\n" << l.rotations_ok << " " << l.failed << " " << l.final_rotate_ok << " " << l.retry_rotate_ok << " " << l.failed_before_final << "\n"; o.close(); _exit(0);
                }
                int st = 0; waitpid(p, &st, 0);
                R.count("traces"); std::string rep = "scenario=" + sc.name + ";k=" + std::to_string(k) + ";fault=" + std::to_string(fault) + ";persist=" + std::to_string(persist);
                std::string sink = sc.fd ? "fd" : "name", compn = sc.comp == 0 ? "plain" : sc.comp == 1 ? "gzip" : "xz";
                if (WIFSIGNALED(st) && WTERMSIG(st) == SIGALRM) { hung = hung || fault == 4; R.violation("fault|hang|" + sink + "|" + compn, "no API call returned or threw within " + std::to_string(fault == 4 ? 5 : 60) + " s under an injected write fault (" + std::string(fault == 4 ? "write() returns 0" : "error / short write") + ")", rep); continue; }
                if (!WIFEXITED(st) || WEXITSTATUS(st) != 0) { R.violation("fault|driver-died|" + sink + "|" + compn, "driver process ended abnormally (status " + std::to_string(st) + ") under an injected write fault", rep); continue; }
                std::ifstream in(rf); int hit; RunLog l; size_t n; in >> hit >> l.block_write_failed >> l.failed_step >> l.buffered_before_fail >> l.buffered_after_fail >> l.recovered_rotate; in >> n; for (size_t i = 0; i < n; i++) { bool b; in >> b; l.rotate_returned.push_back(b); }
                in >> n; for (size_t i = 0; i < n; i++) { int r; in >> r; l.recs_in_failed_block.push_back(r); } in >> n; std::string ev; std::getline(in, ev); for (size_t i = 0; i < n; i++) { std::getline(in, ev); l.events.push_back(ev); } std::getline(in, l.recovery_error); in >> l.rotations_ok >> l.failed >> l.final_rotate_ok >> l.retry_rotate_ok >> l.failed_before_final;
                unlink(rf.c_str());
                if (!hit) { R.violation("fault|fault-point-not-reached", "call " + std::to_string(k) + " never happened", rep); continue; }
                R.count("nontrivial");
                std::string fkind = fault == 1 ? "ENOSPC" : fault == 2 ? "EIO" : fault == 3 ? "short" : fault == 4 ? "zero-byte write" : "EINTR";
                const Call& c = trace[k - 1];
                // clause 1 (no silent loss): an output closed by a rotate_output that returned normally, reached by the same history as in the
                // fault-free run, must hold exactly the fault-free content. Outputs closed by the recovery rotation after an exception have a
                // shorter history and an exception was already reported for them; outputs closed by destruction are exempt.
                auto files = list_dir(dir); bool any_exc = false; for (auto& e : l.events) if (e == "exc") any_exc = true;
                size_t comparable = (size_t)l.rotations_ok + ((!l.failed_before_final && l.final_rotate_ok) ? 1 : 0);
                auto classify = [](const std::string& got, const std::string& want) { if (got.size() < want.size()) return "missing-bytes"; if (got.size() > want.size()) return got.compare(0, want.size(), want) == 0 ? "extra-trailing-bytes" : "duplicated-bytes"; return "corrupted-bytes"; };
                // the final rotation threw and its retry returned normally: the retried rotate_output closed the output, so the output must not have lost bytes.
                // Its fault-free content is known when the history up to there was fault-free: everything the exporter had accepted (returned from) before.
                if (!l.failed_before_final && !l.final_rotate_ok && l.retry_rotate_ok && ref_log.snap.size() >= ref_log.closed_paths.size() - 1) {
                    size_t i = ref_log.closed_paths.size() - 2 < ref_log.snap.size() ? ref_log.closed_paths.size() - 2 : 0;   // the last scenario output (before "healthy")
                    std::string n = ref_log.closed_paths[i].substr(dir.size() + 1); std::string got = files.count(n) ? files[n] : std::string("<missing>"); const std::string& full = ref_log.snap[i];
                    // acceptable contents: the fault-free output (the export completed before the failure), or - when the failure hit while the last block was being
                    // exported - any complete valid file (the block is then still buffered and goes to the recovery output); anything else lost or corrupted bytes
                    bool ok = got == full; if (!ok && !got.empty()) { std::string plain; if (decompress(sc.comp, got, plain) && !plain.empty()) { try { ref::read_file(plain); ok = true; } catch (std::exception&) {} } } if (!ok && got.empty() && full.empty()) ok = true;
                    bool later = false; for (size_t j = i + 1; j < ref_log.closed_paths.size(); j++) if (ref_log.closed_paths[j] == ref_log.closed_paths[i]) later = true;
                    // are the bytes of everything the exporter had accepted before the failing rotation still there? (plain outputs; a compressed stream cut short cannot be decoded)
                    std::string cls = classify(got, full);
                    if (sc.comp == 0) { size_t acc = std::min(ref_log.bytes_before_final, full.size()); cls = (got.size() >= acc && got.compare(0, acc, full, 0, acc) == 0) ? std::string("accepted-data-intact|tail-") + cls : std::string("accepted-data-lost|") + cls; } else cls = std::string("compressed-stream-broken|") + cls;
                    if (!ok && !later) R.violation("fault|rotate-retry-loss|" + sink + "|" + compn + "|" + cls, fkind + " at output call " + std::to_string(k) + "/" + std::to_string(K) + ": rotate_output threw, the retried rotate_output returned normally, but " + n + " holds " + std::to_string(got.size()) + " bytes that are neither the fault-free " + std::to_string(full.size()) + " bytes nor a complete valid file (" + cls + "; " + std::to_string(ref_log.bytes_before_final) + " bytes had been accepted before)", rep);
                }
                for (size_t i = 0; i < comparable && i < ref_log.closed_paths.size() && i < ref_log.snap.size(); i++) {
                    bool later = false; for (size_t j = i + 1; j < ref_log.closed_paths.size(); j++) if (ref_log.closed_paths[j] == ref_log.closed_paths[i]) later = true; if (later) continue;
                    std::string n = ref_log.closed_paths[i].substr(dir.size() + 1);
                    const std::string& want = ref_log.snap[i]; std::string got = files.count(n) ? files[n] : std::string("<missing>");
                    if (got != want) {
                        bool own = (c.path == ref_log.closed_paths[i] + ".part" || c.path == ref_log.closed_paths[i]);
                        R.violation("fault|silent-loss|" + sink + "|" + compn + "|" + (own ? "faulted-output" : "other-output"),
                                    fkind + (persist ? " (persistent)" : "") + " at output call " + std::to_string(k) + "/" + std::to_string(K) + ": rotate_output #" + std::to_string(i) + " returned normally but " + n + " holds " + std::to_string(got.size()) + " bytes instead of the " + std::to_string(want.size()) + " of the fault-free run; exceptions seen by the application: " + (any_exc ? "yes (other calls)" : "none"), rep);
                    }
                }
                // clause 2b: the exception came from a rotate_output (not from a block write): the documented reaction is the same - rotate to a healthy destination
                // (the driver tries twice). An exporter that can never again be given a working output has lost everything buffered from then on.
                if (l.failed && !l.block_write_failed && !l.recovered_rotate) R.violation("fault|no-recovery-after-failed-rotation|" + sink + "|" + compn + (persist ? "|persistent" : "|single"), "rotate_output threw, and so did both attempts to rotate to a healthy destination: " + l.recovery_error, rep);
                // clause 2: recovery after a failed block write
                if (l.block_write_failed) {
                    if (l.buffered_after_fail != l.buffered_before_fail) R.violation("fault|records-lost-after-failed-block-write|" + sink + "|" + compn, "block write threw; buffered items before " + std::to_string(l.buffered_before_fail) + ", after " + std::to_string(l.buffered_after_fail), rep);
                    if (!l.recovered_rotate) R.violation("fault|recovery-rotate-throws|" + sink + "|" + compn + (persist ? "|persistent" : "|single"), "after the failed block write rotate_output to a healthy destination threw: " + l.recovery_error, rep);
                    else {
                        std::string hn = std::string("healthy") + (sc.fd ? "" : ext_of(sc.comp)); std::string plain; std::string why;
                        if (!files.count(hn)) why = "recovery output missing"; else if (!decompress(sc.comp, files[hn], plain)) why = "recovery output is not a complete stream"; else {
                            try { ref::RFile rf2 = ref::read_file(plain); std::vector<std::string> ports; for (auto& b : rf2.blocks) for (auto& q : b.qrs) { size_t p = q.find("txid="); ports.push_back(q.substr(p + 5, q.find(';', p) - p - 5)); }
                                  std::vector<std::string> want; for (int r : l.recs_in_failed_block) want.push_back(std::to_string(r));
                                  if (ports != want) { why = "recovery output holds records ["; for (auto& x : ports) why += x + ","; why += "] expected ["; for (auto& x : want) why += x + ","; why += "]"; } }
                            catch (std::exception& x) { why = std::string("recovery output invalid: ") + x.what(); } }
                        if (!l.recovery_error.empty()) why = "write_block after recovery threw: " + l.recovery_error;
                        if (!why.empty()) R.violation("fault|recovery-output-wrong|" + sink + "|" + compn + (persist ? "|persistent" : "|single"), why, rep);
                    }
                }
                R.outcome(std::string(any_exc ? "exc" : "noexc") + "|" + sink + "|" + compn + "|" + fkind);
            } }
            R.sample("scenario=" + sc.name + ";write calls K=" + std::to_string(K) + ";faults ENOSPC/EIO/short x single/persistent at every k");
        }
        clean_dir(dir); rmdir(dir.c_str());
    };

    if (!a.replay.empty()) {
        std::string s = slurp(a.replay); char nm[128]; long k = 0; int f = 0, p = 0; if (sscanf(s.c_str(), "scenario=%127[^;];k=%ld;fault=%d;persist=%d", nm, &k, &f, &p) < 2) return done(2);
        for (auto& sc : scs) if (sc.name == nm) { explore(sc, total, k, f, p); }
        return done(total.viol.empty() ? 0 : 1);
    }
    Pool pool(a.jobs, 600);
    pool.run(scs.size(), [&](uint64_t i, Result& R) { set_note("scenario=" + scs[i].name); explore(scs[i], R, -1, 0, 0); R.count("states"); },
             [&](uint64_t i, const std::string& d, Result& R) { R.violation("fault|harness-crash|" + scs[i].name, d.substr(0, 800), "scenario=" + scs[i].name + ";k=0"); }, total);
    total.n["evaluations"] = total.n["traces"];
    (void)T;
    return done(0);
}
