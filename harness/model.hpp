// Reference behavioural model of the exporter ("boring": vectors and maps), written from the
// documented API contract and RFC 8618 hint-bit meanings (DESIGN.md Appendix B). It uses the
// library's plain data structs (GenericQueryResponse ...) only as value carriers.
#pragma once
#include "libdump.hpp"

namespace model {
using namespace CDNS;

struct Hints { uint32_t qr = 0x3ffff, sig = 0x1ffff; uint8_t rr = 3, other = 3; };
struct Params { uint64_t tps = 1000000, max_items = 10000; Hints h; std::string dump; };

inline Params from(const BlockParameters& bp) {
    Params p; p.tps = bp.storage_parameters.ticks_per_second; p.max_items = bp.storage_parameters.max_block_items;
    p.h.qr = bp.storage_parameters.storage_hints.query_response_hints; p.h.sig = bp.storage_parameters.storage_hints.query_response_signature_hints;
    p.h.rr = bp.storage_parameters.storage_hints.rr_hints; p.h.other = bp.storage_parameters.storage_hints.other_data_hints;
    p.dump = lib::dump(bp); return p;
}

inline std::vector<GenericResourceRecord> filt_rrs(const std::vector<GenericResourceRecord>& l, const Hints& h, bool question) {
    std::vector<GenericResourceRecord> o;
    for (auto& r : l) { GenericResourceRecord x; x.name = r.name; x.classtype = r.classtype;
        if (!question) { if ((h.rr & 1) && r.ttl) x.ttl = r.ttl; if ((h.rr & 2) && r.rdata) x.rdata = r.rdata; }
        o.push_back(x); }
    return o;
}

// What the file is expected to hold for a generic record under the hints; false = record not stored.
inline bool filter(const GenericQueryResponse& g, const Hints& h, GenericQueryResponse& o) {
    bool any = false;
    auto Q = [&](int b) { return (h.qr >> b) & 1; }; auto S = [&](int b) { return Q(4) && ((h.sig >> b) & 1); };
#define F(cond, fld) if ((cond) && g.fld) { o.fld = g.fld; any = true; }
    F(Q(0), ts) F(Q(1), client_ip) F(Q(2), client_port) F(Q(3), transaction_id)
    F(S(0), server_ip) F(S(1), server_port) F(S(2), qr_transport_flags) F(S(3), qr_type) F(S(4), qr_sig_flags) F(S(5), query_opcode)
    F(S(6), qr_dns_flags) F(S(7), query_rcode) F(S(8), query_classtype) F(S(9), query_qdcount) F(S(10), query_ancount) F(S(11), query_nscount)
    F(S(12), query_arcount) F(S(13), query_edns_version) F(S(14), query_udp_size) F(S(15), query_opt_rdata) F(S(16), response_rcode)
    F(Q(5), client_hoplimit) F(Q(6), response_delay) F(Q(7), query_name) F(Q(8), query_size) F(Q(9), response_size)
    F(Q(10), bailiwick) F(Q(10), processing_flags)
    F(true, asn) F(true, country_code) F(true, round_trip_time)
#undef F
#define L(bit, fld, q) if (Q(bit) && g.fld && !g.fld->empty()) { o.fld = filt_rrs(*g.fld, h, q); any = true; }
    L(11, query_questions, true) L(12, query_answers, false) L(13, query_authority, false) L(14, query_additional, false)
    L(11, response_questions, true) L(15, response_answers, false) L(16, response_authority, false) L(17, response_additional, false)
#undef L
    return any;
}

struct MBlock {
    unsigned bpi = 0; std::string stats = "-";
    std::vector<std::string> qrs, mms; std::map<std::string, uint64_t> aec;
    size_t items() const { return qrs.size() + mms.size() + aec.size(); }
    std::string dump() const {
        std::string s = "bpi=" + std::to_string(bpi) + ";stats=" + stats + ";QR[";
        for (auto& q : qrs) s += "{" + q + "}";
        s += "];AEC["; for (auto& a : aec) s += "{" + a.first + ";n=" + std::to_string(a.second) + "}";
        s += "];MM["; for (auto& m : mms) s += "{" + m + "}";
        return s + "]";
    }
};

struct MOutput { std::vector<MBlock> blocks; size_t header_params = 0; std::vector<unsigned> header_versions; std::string preamble; bool closed = false; uint64_t bytes_reported = 0; bool closed_by_rotation = false; };

struct Exporter {
    std::vector<Params> params; std::vector<unsigned> versions; Params curp; unsigned cur_version = 0; unsigned active = 0; MBlock cur; size_t blocks_written = 0;
    std::vector<MOutput> outs; bool precond_violated = false;
    unsigned vmaj = 1, vmin = 0; int vpriv = 1; // -1 absent
    // record streams for conservation oracles
    std::vector<std::string> submitted_qr, submitted_mm; std::map<std::string, uint64_t> submitted_aec;

    explicit Exporter(const std::vector<Params>& p) : params(p), versions(p.size(), 0) { outs.emplace_back(); cur.bpi = 0; curp = params[0]; }
    // the block being filled works with the copy of the parameters it was armed with
    const Params& P() const { return curp; }
    bool full() const { uint64_t m = P().max_items; return cur.qrs.size() >= m || cur.aec.size() >= m || cur.mms.size() >= m; }

    std::string preamble_dump() const {
        std::string s = "maj=" + std::to_string(vmaj) + ";min=" + std::to_string(vmin) + ";priv=" + (vpriv < 0 ? std::string("-") : std::to_string(vpriv));
        for (size_t i = 0; i < params.size(); i++) s += ";bp[" + std::to_string(i) + "]{" + params[i].dump + "}";
        return s;
    }
    bool write_block() {
        bool wrote = false;
        if (cur.items() > 0) {
            MOutput& o = outs.back();
            if (blocks_written == 0) { o.header_params = params.size(); o.header_versions = versions; o.preamble = preamble_dump(); }
            // caller duties: a set added after the header is used only after rotation (cdns.h add_block_parameters doc); parameters edited in
            // place (get_active_block_parameters_ref) describe only outputs whose header is written afterwards
            if (cur.bpi >= o.header_params || cur_version != o.header_versions[cur.bpi]) precond_violated = true;
            o.blocks.push_back(cur); blocks_written++; wrote = true;
        }
        cur = MBlock(); cur.bpi = active; curp = params[active]; cur_version = versions[active];
        return wrote;
    }
    bool buffer_qr(const GenericQueryResponse& g, const std::string* stats) {
        GenericQueryResponse e;
        if (filter(g, P().h, e)) { std::string d = lib::dump(e); cur.qrs.push_back(d); submitted_qr.push_back(d); }
        if (stats) cur.stats = *stats;
        return full() ? write_block() : false;
    }
    bool buffer_aec(const GenericAddressEventCount& a, const std::string* stats) {
        if (!(P().h.other & 2)) return false;
        std::string k = lib::aec_key(a); cur.aec[k]++; submitted_aec[k]++;
        if (stats) cur.stats = *stats;
        return full() ? write_block() : false;
    }
    bool buffer_mm(const GenericMalformedMessage& m, const std::string* stats) {
        if (!(P().h.other & 1)) return false;
        std::string d = lib::dump(m);
        if (!d.empty()) { cur.mms.push_back(d); submitted_mm.push_back(d); }
        if (stats) cur.stats = *stats;
        return full() ? write_block() : false;
    }
    // returns whether a block was written by the optional export
    bool rotate(bool export_block) {
        bool wrote = export_block ? write_block() : false;
        outs.back().closed = true; outs.back().closed_by_rotation = true;
        outs.emplace_back(); blocks_written = 0;
        return wrote;
    }
    bool set_active(unsigned i) { if (i >= params.size()) return false; active = i; return true; }
    unsigned add_params(const Params& p) { params.push_back(p); versions.push_back(0); return (unsigned)params.size() - 1; }
    void edit_active(const Params& p) { params[active] = p; versions[active]++; }
};

} // namespace model
