// Self-test of the independent reference (ref/cbor.hpp, ref/cdns.hpp) against RFC 8949 Appendix A
// vectors and a hand-built RFC 8618 file. Run by setup_cmd; exit 0 = ok.
#include "../ref/cdns.hpp"
#include <cstdio>
using namespace ref;
static int fails = 0;
#define CHECK(c) do { if (!(c)) { printf("reftest FAIL line %d: %s\n", __LINE__, #c); fails++; } } while (0)
static Node P(const char* h) { return parse_exact(unhex(h)); }
static bool bad(const char* h) { try { parse_exact(unhex(h)); } catch (CborError&) { return true; } return false; }
int main() {
    // RFC 8949 Appendix A (subset covering every major type and head width)
    struct { const char* h; int major; uint64_t arg; } ints[] = {
        {"00", 0, 0}, {"01", 0, 1}, {"0a", 0, 10}, {"17", 0, 23}, {"1818", 0, 24}, {"1819", 0, 25}, {"1864", 0, 100}, {"1903e8", 0, 1000},
        {"1a000f4240", 0, 1000000}, {"1b000000e8d4a51000", 0, 1000000000000ULL}, {"1bffffffffffffffff", 0, 18446744073709551615ULL},
        {"20", 1, 0}, {"29", 1, 9}, {"3863", 1, 99}, {"3903e7", 1, 999}, {"3bffffffffffffffff", 1, 18446744073709551615ULL}};
    for (auto& t : ints) { Node n = P(t.h); CHECK(n.major == t.major && n.arg == t.arg); CHECK(hex(encode(n)) == t.h); }
    CHECK(hex(encode(mk_uint(24))) == "1818"); CHECK(hex(encode(mk_int(-1000))) == "3903e7"); CHECK(hex(encode(mk_uint(1000000))) == "1a000f4240");
    CHECK(P("f4").is_bool() && P("f5").is_bool() && P("f5").ai == 21); CHECK(P("f6").major == 7); CHECK(P("f0").arg == 16); CHECK(P("f8ff").arg == 255);
    CHECK(P("f93c00").major == 7 && P("fa47c35000").ai == 26 && P("fb3ff199999999999a").ai == 27);
    CHECK(P("40").bytes == "" && P("4401020304").bytes == std::string("\1\2\3\4")); CHECK(P("6449455446").bytes == "IETF"); CHECK(P("62c3bc").bytes == "\xc3\xbc");
    CHECK(P("80").kids.empty()); CHECK(P("83010203").kids.size() == 3); CHECK(P("8301820203820405").kids[1].kids.size() == 2);
    CHECK(P("98190102030405060708090a0b0c0d0e0f101112131415161718181819").kids.size() == 25);
    CHECK(P("a0").kids.empty()); CHECK(P("a201020304").count() == 2); CHECK(P("a26161016162820203").kids[3].is_array());
    CHECK(P("c074323031332d30332d32315432303a30343a30305a").is_tag()); CHECK(P("c11a514b67b0").kids[0].arg == 1363896240);
    CHECK(P("5f42010243030405ff").bytes == std::string("\1\2\3\4\5") && P("5f42010243030405ff").kids.size() == 2);
    CHECK(P("7f657374726561646d696e67ff").bytes == "streaming"); CHECK(P("9fff").indef && P("9fff").kids.empty());
    CHECK(P("9f018202039f0405ffff").kids.size() == 3); CHECK(P("83018202039f0405ff").kids[2].indef);
    CHECK(P("bf61610161629f0203ffff").count() == 2); CHECK(P("826161bf61626163ff").kids[1].indef);
    for (const char* h : {"5f42010243030405ff", "9f018202039f0405ffff", "bf61610161629f0203ffff", "d82076687474703a2f2f7777772e6578616d706c652e636f6d", "1b000000e8d4a51000", "3bffffffffffffffff"}) CHECK(hex(encode(P(h))) == h);
    // not well-formed
    for (const char* h : {"", "18", "1c", "1d", "1e", "1f", "3f", "df", "ff", "41", "5f4100", "5f5f4100ffff", "7f4100ff", "81", "a100", "9f", "bf00ff", "0000", "f801", "c0", "5b0000010000000000"}) CHECK(bad(h));
    // RFC 8618 hand-built file
    auto kv = [](std::vector<std::pair<int64_t, Node>> v) { std::vector<Node> k; for (auto& p : v) { k.push_back(mk_int(p.first)); k.push_back(p.second); } return mk_map(k); };
    Node hints = kv({{0, mk_uint(0x3ffff)}, {1, mk_uint(0x1ffff)}, {2, mk_uint(3)}, {3, mk_uint(3)}});
    Node sp = kv({{0, mk_uint(1000)}, {1, mk_uint(5)}, {2, hints}, {3, mk_array({mk_uint(0)})}, {4, mk_array({mk_uint(1), mk_uint(28)})}});
    Node pre = kv({{0, mk_uint(1)}, {1, mk_uint(0)}, {3, mk_array({kv({{0, sp}})})}});
    Node tables = kv({{0, mk_array({mk_bstr(std::string("\x7f\0\0\1", 4))})}, {1, mk_array({kv({{0, mk_uint(1)}, {1, mk_uint(1)}})})}, {2, mk_array({mk_bstr(std::string("\3www\0", 5))})},
                      {3, mk_array({kv({{0, mk_uint(0)}, {1, mk_uint(53)}, {8, mk_uint(0)}})})}});
    Node qr = kv({{0, mk_uint(2500)}, {1, mk_uint(0)}, {2, mk_uint(4242)}, {4, mk_uint(0)}, {7, mk_uint(0)}, {6, mk_int(-7)}});
    Node blk = kv({{0, kv({{0, mk_array({mk_uint(10), mk_uint(999)})}, {1, mk_uint(0)}})}, {2, tables}, {3, mk_array({qr})}});
    Node blocks = mk_array({blk}); blocks.indef = true;
    Node file = mk_array({mk_tstr("C-DNS"), pre, blocks});
    RFile f = read_file(encode(file));
    CHECK(f.blocks.size() == 1 && f.params.size() == 1 && f.params[0].tps == 1000 && !f.has_private);
    CHECK(f.blocks[0].qrs.size() == 1);
    CHECK(f.blocks[0].qrs[0] == "ts=13.499;cip=7f000001;cport=4242;sip=7f000001;sport=53;qct=1/1;delay=-7;qname=0377777700;");
    CHECK(f.blocks[0].unreachable.empty());
    // index closure violation and missing mandatory member are rejected
    { Node b2 = file; b2.kids[2].kids[0].kids[5].kids[0].kids[3] = mk_uint(1); bool thrown = false; try { read_file(encode(b2)); } catch (SchemaError&) { thrown = true; } CHECK(thrown); }
    { Node b3 = file; b3.kids[1].kids.resize(4); b3.kids[1].arg = 2; bool thrown = false; try { read_file(encode(b3)); } catch (SchemaError&) { thrown = true; } CHECK(thrown); }
    if (fails == 0) printf("reftest ok\n");
    return fails ? 1 : 0;
}
