#!/usr/bin/env python3
"""Regenerates MANIFEST.json from vlib/checks.py (single source of truth)."""
import json, os, sys
VERIF = os.path.dirname(os.path.dirname(os.path.abspath(__file__)))
sys.path.insert(0, VERIF)
from vlib.checks import CHECKS, NOT_APPLICABLE, ENGINES

ids = [json.loads(l)["id"] for l in open(os.path.join(VERIF, "properties.jsonl"))]
checks = []
for pid in ids:
    if pid not in CHECKS:
        continue
    c = CHECKS[pid]
    checks.append({
        "property_id": pid,
        "quick_cmd": "./check %s --tier quick" % pid,
        "thorough_cmd": "./check %s --tier thorough" % pid,
        "evidence_file": "/verif/evidence/%s.json" % pid,
        "replay_cmd_template": "./check %s --replay {path}" % pid,
        "engine": c.get("engine", ""),
        "level_claimed": {"category": c["level"], "text": c["level_text"], "design_ref": c.get("design_ref", "DESIGN.md section 5, " + pid)},
        "level_note": c["level_note"],
        "technique": c["technique"],
    })
na = [{"property_id": pid, "reason": NOT_APPLICABLE.get(pid, "check not built yet in this round; no claim is made")} for pid in ids if pid not in CHECKS]
m = {
    "version": 1,
    "setup_cmd": "python3 vlib/setup.py",
    "hooks": {
        "guard": "CDNS_VERIF",
        "enable": "checks compile /repo/src/*.cpp themselves with -DCDNS_VERIF (vlib/build.py); no source hook is currently needed: observation uses a Writer<T> specialisation, -fno-access-control and libc interposition in the harness executables",
        "baseline_off_cmd": "cmake --build /repo/_build && ctest --test-dir /repo/_build -j8 --timeout 900",
        "source_commits": [],
        "add_only": True,
    },
    "engines": ENGINES,
    "checks": checks,
    "not_applicable": na,
    "notes": "All checks are bounded exhaustive explorations executed on the real implementation (see DESIGN.md). known_findings.json lists recorded/fixed defects.",
}
json.dump(m, open(os.path.join(VERIF, "MANIFEST.json"), "w"), indent=1)
print("MANIFEST.json: %d checks, %d not_applicable" % (len(checks), len(na)))
