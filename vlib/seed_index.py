#!/usr/bin/env python3
"""Generates seeded/INDEX.md from seeded/*/meta.json."""
import json, glob, os
VERIF = os.path.dirname(os.path.dirname(os.path.abspath(__file__)))
rows = []
for m in sorted(glob.glob(os.path.join(VERIF, "seeded", "*", "meta.json"))):
    d = json.load(open(m))
    patch = open(os.path.join(os.path.dirname(m), "patch.diff")).read()
    files = sorted(set(l.split(" b/")[-1].strip() for l in patch.splitlines() if l.startswith("diff --git")))
    needs = (d.get("needs") or "").strip().splitlines()
    first = next((l.strip("# ").strip() for l in needs if l.strip() and not l.startswith("#")), "")
    retired = os.path.exists(os.path.join(os.path.dirname(m), "RETIRED.md"))
    det = ", ".join("%s (%s)" % (c, "; ".join(v["keys"][:2])[:110]) for c, v in d["checks"].items() if v["detected"]) or "NOT DETECTED"
    if retired: det = "RETIRED - no longer property-breaking on the current tree, see RETIRED.md (was detected: see meta.json history in git)"
    rows.append("| %s | %s | %s | %d pass | demo exit %s / %s | %s |" % (d["seed_id"], d["property"], ", ".join(files), d["tests_passed_with_change"], d["demo_exit_with_change"], d["demo_exit_without_change"], det))
out = ["# Seeded property-breaking changes", "",
       "Each change was written by an independent sub-agent that saw only the property text and a scratch worktree (nothing from /verif).",
       "`vlib/seed_eval.py` confirmed each one (repository tests still pass with the change; the author's demo fails with it and passes without)",
       "and ran the quick checks against it (`VERIF_REPO=<worktree> ./check <ID> --tier quick`). Patch, demo and notes are in `seeded/<id>/`.", "",
       "| seed | property | files changed | repo tests with change | demo with / without | detected by (first finding keys) |", "|---|---|---|---|---|---|"] + rows
out += ["", "Checks strengthened because a seed was first missed (all on the unchanged tree still hold):",
        "* C04-a (hints edited in place through `get_active_block_parameters_ref()`): E-HIST profile `hints-edit`, model keeps a per-block copy of the parameters.",
        "* C08-a (`static thread_local` stack in `skip_item`): second phase of the C08 enumeration reads every variant right after a read that fails inside `skip_item`.",
        "* C02-a / C09-a / C13-a (one buffer alignment out of 2048): alignment sweep `val --mode align` (padding 0..2100, records / preamble texts / rotation).",
        "* C17 block part was vacuous (histories never flushed): profile `times` now appends `write_block`; driver has a vacuity guard (`blocks_validated > 0`).",
        "* C14-a (stack buffer with a wrong fallback test): chunking sweep (600 KiB in chunks of one size, 10-24 sizes).",
        "* C18-a (blocks without block-parameters-index at 10^9 ticks): pool file J.",
        "* C19-a (index rebuild wrong when a table holds duplicates): block content 4 (duplicate entries followed by further values) and follow-up op `add_existing_last_entries`.",
        "* C08-b (map key truncated to 8 bits): unknown keys congruent to known keys modulo 2^8 / 2^16 / 2^32 / 2^64 in every map (also exposed genuine defect D15).",
        "* C16-b (staged bytes dropped on a failed flush): the C16 driver retries a rotation that threw; key class accepted-data-lost vs. accepted-data-intact.",
        "* C20-a / C20-b: scheduling point after calls that fill a caller-owned buffer; environment deviation 'close() reports EINTR'.",
        "* C09-c (scratch object reused across parameter sets): preambles whose sets differ in which optional members they carry.",
        "* C15-c (new .part opened before the old stream is closed): scenario rotating onto the name currently being written."]
open(os.path.join(VERIF, "seeded", "INDEX.md"), "w").write("\n".join(out) + "\n")
print("\n".join(rows))
