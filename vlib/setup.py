#!/usr/bin/env python3
"""setup_cmd: build libraries, harnesses and tools for the current tree; self-test the reference."""
import os, sys, subprocess
VERIF = os.path.dirname(os.path.dirname(os.path.abspath(__file__)))
sys.path.insert(0, VERIF)
from vlib import build
from vlib.checks import CHECKS

def main():
    variants = set()
    jobs = []
    seen = set()
    for pid, c in CHECKS.items():
        for s in c["stages"]:
            if s.get("kind", "cxx") == "cxx":
                variants.add(s["variant"])
                key = (s["harness"], s["variant"], tuple(s.get("flags", ())))
                if key not in seen:
                    seen.add(key)
                    jobs.append(lambda s=s: build.harness(s["harness"], s["variant"], s.get("flags", ()), s.get("extra_srcs", ()), s.get("link", ()), s.get("harness_variant")))
            for t in s.get("tools", ()):
                variants.add(s.get("tool_variant", "asan"))
                if ("tool", t) not in seen:
                    seen.add(("tool", t))
                    jobs.append(lambda t=t, s=s: build.tool(t.replace("-", "_"), s.get("tool_variant", "asan")))
    build.build_many([lambda v=v: build.lib(v) for v in sorted(variants)])
    build.build_many(jobs)
    # reference self-test
    exe = build.harness("reftest", "plain")
    r = subprocess.run([exe])
    if r.returncode != 0:
        print("reference self-test FAILED"); return 1
    print("setup ok: %d harness/tool builds, variants %s" % (len(jobs), sorted(variants)))
    return 0

if __name__ == "__main__":
    sys.exit(main())
