#!/bin/bash
# runs every check of a tier in sequence and prints one summary line each (used with `vp run`, results are not evidence)
tier=${1:-quick}; shift
cd "$(dirname "$0")/.."
ids=${@:-$(python3 -c "
import sys; sys.path.insert(0,'.')
from vlib.checks import CHECKS
print(' '.join(sorted(CHECKS)))")}
for c in $ids; do
  s=$(date +%s); out=$(./check $c --tier $tier 2>&1); rc=$?; e=$(date +%s)
  echo "$c rc=$rc $((e-s))s :: $(echo "$out" | tail -1 | cut -c1-200)"
  echo "$out" | grep -E "VIOLATION|HARNESS ERROR" | head -5
done
