#!/bin/bash
# reseed.sh <dir-with-patch/demo/notes> <seed-id> <property> [extra checks]: fresh worktree at /repo HEAD + patch -> seed_eval -> remove worktree
src=$1; id=$2; prop=$3; shift 3
wt=/tmp/rs-$id
git -C /repo worktree remove --force $wt 2>/dev/null
git -C /repo worktree add -q --detach $wt HEAD || exit 1
cp $src/patch.diff $src/demo.cpp $wt/; [ -f $src/NOTES.md ] && cp $src/NOTES.md $wt/
if ! git -C $wt apply --check patch.diff 2>/dev/null; then echo "PATCH DOES NOT APPLY to HEAD: $id"; git -C /repo worktree remove --force $wt; exit 3; fi
python3 /verif/vlib/seed_eval.py $wt $id $prop "$@" 2>&1 | grep -E '"confirmed"|^C[0-9]+ [0-9]' | cut -c1-220
git -C /repo worktree remove --force $wt
