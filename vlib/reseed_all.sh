#!/bin/bash
# re-validates every seeded change against /repo HEAD and the current checks: one job per property (5 in parallel), seeds of a property in sequence
cd /verif
one() { prop=$1; for d in seeded/$prop-*/; do id=$(basename $d); [ -f $d/RETIRED.md ] && { echo "== $id"; echo "RETIRED (see seeded/$id/RETIRED.md)"; continue; }; mkdir -p /dev/shm/seedsrc/$id; cp $d/patch.diff $d/demo.cpp /dev/shm/seedsrc/$id/; [ -f $d/NOTES.md ] && cp $d/NOTES.md /dev/shm/seedsrc/$id/; echo "== $id"; vlib/reseed.sh /dev/shm/seedsrc/$id $id $prop; done > /dev/shm/reseed_$prop.log 2>&1; }
export -f one
ls seeded | grep -v INDEX | sed 's/-.$//' | sort -u | xargs -P 5 -I{} bash -c 'one {}'
cat /dev/shm/reseed_C*.log > /dev/shm/reseed_all.log
python3 vlib/seed_index.py > /dev/null
rm -rf /dev/shm/seedsrc
