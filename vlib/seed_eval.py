#!/usr/bin/env python3
"""Confirm an independently written property-breaking change and run the checks against it.
usage: seed_eval.py <worktree> <seed-id> <property> [extra check ids ...]
The worktree has the change applied and contains patch.diff, demo.cpp, NOTES.md.
Steps: (1) build + run the repository's tests with the change (must all pass); (2) build and run the demo with the
change (must fail) and without it (must pass); (3) run ./check <property> (+extras) --tier quick with VERIF_REPO=<worktree>;
(4) store patch.diff, demo.cpp, NOTES.md and meta.json under /verif/seeded/<seed-id>/."""
import sys, os, subprocess, json, shutil, re, time
VERIF = os.path.dirname(os.path.dirname(os.path.abspath(__file__)))

def sh(cmd, cwd=None, timeout=3600, env=None):
    r = subprocess.run(cmd, shell=True, cwd=cwd, stdout=subprocess.PIPE, stderr=subprocess.STDOUT, text=True, errors="replace", timeout=timeout, env=env)
    return r.returncode, r.stdout

def build(wt):
    rc, out = sh("cmake -G Ninja -B _build -DBUILD_TESTS=ON -DBUILD_DOC=OFF >/dev/null && cmake --build _build 2>&1 | tail -3", wt)
    return rc == 0, out

def tests(wt):
    rc, out = sh("./_build/tests/tests 2>&1 | tail -3", wt)
    m = re.search(r"PASSED\s+\]\s+(\d+) tests", out)
    return (int(m.group(1)) if m else 0), ("FAILED" in out), out

def demo(wt):
    rc, out = sh("g++ -std=c++14 -msse4 -w -I src demo.cpp -L_build -lcdns -lz -llzma -lpthread -Wl,-rpath,$PWD/_build -o demo_bin 2>&1 | tail -5", wt)
    if not os.path.exists(os.path.join(wt, "demo_bin")):
        return None, "demo does not compile: " + out
    try:
        rc, out = sh("./demo_bin 2>&1 | tail -15", wt, timeout=600)
        rc2 = subprocess.run("./demo_bin >/dev/null 2>&1", shell=True, cwd=wt, timeout=600).returncode
    except subprocess.TimeoutExpired:
        return 124, "timeout"
    finally:
        pass
    return rc2, out

def main():
    wt, sid, prop = sys.argv[1], sys.argv[2], sys.argv[3]
    extra = sys.argv[4:]
    meta = {"seed_id": sid, "property": prop, "worktree": wt, "ran": []}
    patch = open(os.path.join(wt, "patch.diff")).read()
    # make sure the change is applied
    sh("git checkout -- src", wt)
    rc, out = sh("git apply patch.diff", wt); meta["ran"].append("git checkout -- src; git apply patch.diff -> %d" % rc)
    # demos sometimes write into the worktree path they were authored in; make sure that directory exists
    made = []
    for m in set(re.findall(r'"(/tmp/w[t0-9]-C\d+)/', open(os.path.join(wt, "demo.cpp")).read())):
        if not os.path.exists(m):
            os.makedirs(m); made.append(m)
    ok, out = build(wt); meta["builds_with_change"] = ok
    n, failed, out = tests(wt); meta["tests_passed_with_change"] = n; meta["tests_failed_with_change"] = failed
    meta["ran"].append("with change: cmake --build; ./_build/tests/tests -> %d passed%s" % (n, ", FAILURES" if failed else ""))
    rc_with, out_with = demo(wt); meta["demo_exit_with_change"] = rc_with; meta["demo_output_with_change"] = (out_with or "")[-800:]
    # without the change
    sh("git checkout -- src", wt); ok2, _ = build(wt)     # (git stash is shared between worktrees - never use it here)
    rc_without, out_without = demo(wt); meta["demo_exit_without_change"] = rc_without
    sh("git apply patch.diff", wt); build(wt)
    try: os.unlink(os.path.join(wt, "demo_bin"))
    except OSError: pass
    meta["ran"].append("demo: exit %s with the change, exit %s without" % (rc_with, rc_without))
    meta["confirmed"] = bool(ok and n >= 98 and not failed and rc_with not in (0, None) and rc_without == 0)
    # run the checks
    verdicts = {}
    env = dict(os.environ); env["VERIF_REPO"] = wt
    for c in [prop] + extra:
        t0 = time.time()
        rc, out = sh("./check %s --tier quick" % c, VERIF, env=env)
        keys = sorted(set(re.findall(r"^  key=([^:]+):", out, re.M)))
        verdicts[c] = {"exit": rc, "detected": rc == 1, "wall_s": round(time.time() - t0, 1), "keys": keys[:8], "last": out.strip().splitlines()[-1][:300] if out.strip() else ""}
        meta["ran"].append("VERIF_REPO=%s ./check %s --tier quick -> exit %d" % (wt, c, rc))
    meta["checks"] = verdicts
    meta["detected_by"] = [c for c, v in verdicts.items() if v["detected"]]
    d = os.path.join(VERIF, "seeded", sid); os.makedirs(d, exist_ok=True)
    shutil.copy(os.path.join(wt, "patch.diff"), d); shutil.copy(os.path.join(wt, "demo.cpp"), d)
    notes = os.path.join(wt, "NOTES.md")
    if os.path.exists(notes):
        shutil.copy(notes, d); meta["needs"] = open(notes).read()[:1500]
    json.dump(meta, open(os.path.join(d, "meta.json"), "w"), indent=1)
    print(json.dumps({k: meta[k] for k in ("seed_id", "property", "confirmed", "tests_passed_with_change", "demo_exit_with_change", "demo_exit_without_change", "detected_by")}, indent=1))
    for c, v in verdicts.items(): print(c, v["exit"], v["keys"][:3], v["last"][:160])
    for c in [prop] + extra: shutil.rmtree(os.path.join(VERIF, "replays", c), ignore_errors=True)   # only this property's (parallel evaluations of other properties keep theirs)
    for m in made:
        shutil.rmtree(m, ignore_errors=True)

if __name__ == "__main__":
    main()
