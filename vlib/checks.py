"""Per-property configuration: harness stages, evidence level, enumeration rule, assumptions."""

CHECKS = {}
NOT_APPLICABLE = {}
ENGINES = [
    dict(name="E-ENC", path="harness/enc.cpp", serves_properties=["C06"], kind_free_text="explicit-state exploration of the real encoder (state = staging buffer fill level)"),
]

CHECKS["C06"] = dict(
    level="model_checking", engine="E-ENC",
    technique="explicit-state model checking of the implementation: exhaustive enumeration of (buffer fill level x operation sequence) on the real encoder against a reference encoder",
    level_text="Every reachable encoder state (fill level 0..2048) is visited and every operation/argument class is fired from it on the real code; outputs are compared with an independent RFC 8949 encoder. Right level: the only position-dependent state of the encoder is the fill level, so the state space is finite and fully enumerable.",
    level_note="Trusted: ref/cbor.hpp preferred encoder; g++/ASan/UBSan runtime; string payloads use one byte pattern per length (payload bytes are copied, never inspected).",
    stages=[dict(harness="enc", variant="asan", max_alloc_mb=512, require=["long_traces", "short_writes"])],   # liblzma allocates its 64 MiB match-finder table in one piece
    rule="explicit-state exploration of the real CdnsEncoder: state = fill level of the 2 KiB staging buffer (every level 0..2048 "
         "reached by a filler and read back through the private pointer), transitions = the 18 public write operations x argument "
         "classes (width boundaries, full 2^8/2^16 ranges, string lengths 0..3x2048), plus all pairs/triples near the buffer end and "
         "a reduced pass through descriptor / named-file / gzip sinks; oracle = bytes in the sink == concatenation of the independent "
         "reference's preferred encodings and each return value == that encoding's length. A trace is non-trivial/distinct by "
         "construction: each (fill level, operation sequence, sink) is generated once.",
    bound_quick="singles: every fill level 0..2048 x ~190 (op,arg); pairs f in 2040..2048; triples f in 2045..2048; 2^8/2^16 at f in {0,2047}; string lengths 0..6144 at f in {0,2046..2048}; other sinks f in {0,2040..2048}",
    bound_thorough="singles: every fill level; pairs f in 2030..2048; triples f in 2040..2048; 2^8/2^16 at f in {0,2044..2048}; string lengths 0..6144 at every f = 0 mod 64 and f >= 2040; other sinks",
    assumptions=["string payloads are a position-dependent byte pattern, not all 256^n contents (the encoder copies payload bytes without looking at them)",
                 "reference encoder ref/cbor.hpp (RFC 8949 preferred serialisation) is the trusted oracle"],
)

CHECKS["C12"] = dict(
    deadline_thorough=2400, deadline_quick=600,   # 14-operation alphabet: the thorough tier runs 2 * 10^8 histories
    level="model_checking", engine="E-HIST",
    technique="explicit-state model checking of the implementation: every API history up to a depth bound executed on the real exporter in lockstep with a reference state machine",
    level_text="All operation histories over an 11-operation alphabet (storable/unstorable records, repeated address-event keys, explicit block writes, rotation, parameter switches incl. an out-of-range one) up to the depth bound are executed on the real CdnsExporter for 24 configurations; after every step return-value sign and all counters are compared with the reference model, at the end every output is parsed independently and compared block by block (sizes, order, conservation).",
    level_note="Trusted: harness/model.hpp (reference state machine), ref/ parser. The BFS merges two histories only if the reference-model state AND a digest of the exporter's / block's private members agree (the encoder's fill level and staged bytes are left out of the key: C06 shows the encoder is position independent; block counter and AEC counts saturate at 2); every transition is executed on a fresh real exporter and fully checked before de-duplication, so merging only prunes extensions. max_block_items > 3 and record shapes outside the pool are outside the claim.",
    stages=[dict(harness="hist", variant="plain", args=["--mode", "flush"], require=["blocks_validated"]),
            dict(harness="hist", variant="plain", args=["--mode", "flush", "--bfs", "30", "--abstract", "1"], prefix="bfs_", require=["bfs_fixpoints"]),
            dict(harness="val", variant="asan", args=["--mode", "values"], prefix="long_")],
    rule="stateless DFS: for each of 24 configurations (max_block_items {0,1,2,3}x{1,2}, hints {all, AEC+MM off, QR time/port only}) + 2 with limits beyond 32 bits ({2^32+2, 2^32}, {2^63, 2^64-1}; stateless search only) every history of length 0..D over the alphabet; a history is non-trivial if it has >= 1 operation; each is distinct by construction",
    bound_quick="stateless: every history of length <= 5 (11^5 per configuration); BFS with state de-duplication: run to the fixpoint of the abstract state space in all 24 configurations (deepest new state at depth 13, bound 30)", bound_thorough="stateless: every history of length <= 6; BFS: same fixpoint",
    assumptions=["the reference model (harness/model.hpp) states the intended buffering contract", "record contents are drawn from a fixed pool (7 QR, 3 AEC, 4 MM shapes)"],
)

_HIST_NOTE = "Trusted: harness/model.hpp (reference state machine written from the API documentation and RFC 8618 hint bits), ref/ (independent strict CBOR parser + RFC 8618 validator/interpreter, self-tested by setup). Histories deeper than the bound and record shapes outside the pools are outside the claim."

CHECKS["C13"] = dict(
    level="model_checking", engine="E-HIST",
    technique="explicit-state model checking of the implementation: every API history (incl. rotations to real files and descriptors) up to a depth bound, outputs snapshotted at each rotation and parsed independently",
    level_text="All histories over {buffer_qr x2, buffer_aec, buffer_mm, write_block, rotate(new,export), rotate(new,no export), rotate(onto the first name again), add_block_parameters, set_active 0/1} up to the depth bound run on the real exporter writing to real named files and real descriptors (plain, gzip, xz). Each output closed by a rotation is snapshotted at that moment, must be empty or a complete valid file whose preamble holds every parameter set its blocks name, must not change afterwards, and the concatenated record stream must equal the model's.",
    level_note=_HIST_NOTE + " Histories violating the documented caller duty (using a parameter set added after the current output's header before rotating) are pruned by the model, not reported.",
    stages=[dict(harness="hist", variant="plain", args=["--mode", "rotate"]),
            dict(harness="hist", variant="plain", args=["--mode", "rotate-gz"], prefix="gz_"),
            dict(harness="hist", variant="plain", args=["--mode", "rotate-xz"], prefix="xz_"),
            dict(harness="val", variant="asan", args=["--mode", "align"], prefix="align_"),
            dict(harness="val", variant="asan", args=["--mode", "values"], prefix="long_"),   # includes the trace with more than 2^16 blocks per output and a rotation at exactly 2^16
            dict(harness="comp", variant="plain", args=["--mode", "export-rotated"], prefix="bigz_", require=["export_runs", "export_records_validated"]),   # large gzip / xz exports rotated half-way: both outputs valid, every record once
            dict(harness="hist", variant="plain", args=["--mode", "rotate", "--bfs", "8", "--abstract", "1"], prefix="bfs_", tiers=("quick",)),
            dict(harness="hist", variant="plain", args=["--mode", "rotate", "--bfs", "10", "--abstract", "1"], prefix="bfs_", tiers=("thorough",))],
    rule="stateless DFS over an 11-operation alphabet x 2 configurations x {named file, descriptor, descriptor whose write(2) transfers at most 7 bytes per call (plain, gzip)} x {plain, gzip, xz}; every history of length 0..D; non-trivial = at least one operation",
    bound_quick="plain: length <= 4; gzip: <= 3; xz: <= 2", bound_thorough="plain: length <= 5; gzip: <= 4; xz: <= 3",
    assumptions=["name-created exporters are rotated to names, descriptor-created ones to descriptors (DESIGN 8.2)", "files live on tmpfs (/dev/shm)"],
)

CHECKS["C01"] = dict(
    level="model_checking", engine="E-HIST",
    technique="explicit-state model checking of the implementation: every buffering history up to a depth bound, each output compared three ways (model / library reader / independent RFC 8618 reader)",
    level_text="Histories over 16 operations (6 query/response shapes incl. a fully populated one with all eight RR lists, 3 address-event keys, 3 malformed messages, statistics variants, write_block, parameter switches, rotation) x configurations (4 hint sets x ticks_per_second {1,1e3,1e6,1e9} x max_block_items {1,2,3,10000} x 2 parameter sets) are executed; the file is read back by CdnsReader+read_generic_* and by the independent interpreter and both must equal the model's expectation record for record (timestamps to the tick, AEC totals per key, statistics per block).",
    level_note=_HIST_NOTE,
    stages=[dict(harness="hist", variant="plain", args=["--mode", "roundtrip"], require=["blocks_validated"]),
            dict(harness="val", variant="asan", args=["--mode", "values"], prefix="values_"),
            dict(harness="val", variant="asan", args=["--mode", "align"], prefix="align_"),
            dict(harness="ser", variant="asan", args=["--mode", "roundtrip", "--structs", "block"], prefix="serrt_")],
    rule="stateless DFS, every history of length 0..D per configuration; structure round trip (E-SER): each of the 15 block-level structures x member subsets x {small, widest} values: write(x)=B, a fresh object and an object that held the fully populated variant before both read B and must serialise to B again; value product: every field x every boundary value alone / inside the full record / removed from it (pairs of fields thinned); alignment sweep: a padding string of every length 0..2100 (+ 4095..70000) shifts a record stream with 64-bit values and a preamble with text members across every position of the encoder buffer; long traces (70000 records with 70000 distinct table values in one block; 200 blocks of 3; 65536+70000 blocks with a rotation; 300 parameter sets; RR lists of 255/256/300/70000 records and names / rdata / payloads of 255..70000 bytes); non-trivial = at least one operation; distinct by construction",
    bound_quick="length <= 3 over 16 ops, 19 configurations", bound_thorough="length <= 4, 64 configurations",
    assumptions=["statistics passed together with an AEC/MM that other_data_hints reject are ignored (model follows the code; the property text is silent)"],
)

CHECKS["C02"] = dict(
    level="model_checking", engine="E-HIST",
    technique="explicit-state model checking of the implementation: every API history incl. present-but-empty arguments up to a depth bound; every closed output strict-parsed and schema-validated by an independent reader",
    level_text="Every closed output of every explored history must be exactly one well-formed CBOR item that validates against the RFC 8618 schema (declared counts, mandatory members, index closure, parameter-set closure); outputs without a block must have zero uncompressed bytes.",
    level_note=_HIST_NOTE,
    stages=[dict(harness="hist", variant="plain", args=["--mode", "wellformed"]),
            dict(harness="blk", variant="asan", args=["--mode", "direct"], prefix="direct_"),
            dict(harness="val", variant="asan", args=["--mode", "align"], prefix="align_"),
            dict(harness="comp", variant="plain", args=["--mode", "export-wellformed"], prefix="bigz_", require=["export_runs", "export_records_validated"]),   # large gzip / xz outputs (the codecs emit while data still arrives), decompressed and validated
            dict(harness="ser", variant="asan", args=["--mode", "wellformed"], prefix="ser_"),
            dict(harness="hist", variant="plain", args=["--mode", "wellformed", "--bfs", "7", "--abstract", "1"], prefix="bfs_", tiers=("quick",)),
            dict(harness="hist", variant="plain", args=["--mode", "wellformed", "--bfs", "9", "--abstract", "1"], prefix="bfs_", tiers=("thorough",))],
    rule="stateless DFS over 13 operations incl. BlockStatistics() (present but empty) on QR/AEC/MM calls, unstorable records, rotations, parameter-set additions x 4 configurations (max_block_items 0/2/10000; hint masks that keep every other member of each map); E-SER: every serialisable structure x member subsets (all 2^17 signature subsets in the thorough tier) x value widths x buffer fill levels: the bytes one write() call appends are exactly one well-formed CBOR item (declared map/array lengths match what follows)",
    bound_quick="length <= 4", bound_thorough="length <= 5",
    assumptions=["CDDL '+' (non-empty) cardinalities are not enforced (DESIGN 8.2)"],
)

CHECKS["C10"] = dict(
    level="model_checking", engine="E-HIST",
    technique="explicit-state model checking of the implementation: per-call byte counts summed along every explored history and compared with the real output size",
    level_text="(a) every encoder call in the E-ENC exploration returns the length of the bytes it appended; (b) along every exporter history the sum of returned counts since an output was opened equals that output's uncompressed size (+1 for the break written by destruction); (c) every serialisation call (Timestamp, ClassType, QueryResponseSignature, ..., BlockParameters, FilePreamble ::write) returns the measured growth of the output and appends exactly one CBOR item, for every explored subset of optional members incl. present-but-empty nested structures.",
    level_note=_HIST_NOTE,
    stages=[dict(harness="enc", variant="asan", prefix="enc_", max_alloc_mb=512),
            dict(harness="hist", variant="plain", args=["--mode", "counts"]),
            dict(harness="blk", variant="asan", args=["--mode", "direct"], prefix="direct_"),
            dict(harness="val", variant="asan", args=["--mode", "align"], prefix="align_"),
            dict(harness="comp", variant="plain", args=["--mode", "export-counts"], prefix="bigz_", require=["export_runs"]),   # large gzip / xz outputs: returned counts vs decompressed size
            dict(harness="ser", variant="asan", prefix="ser_")],
    rule="E-ENC traces (see C06) + stateless DFS over 10 exporter operations x {memory, gzip, descriptor, named file, descriptor with short writes} sinks x 3 parameter configurations (collection parameters full / present-but-empty / one member) + E-SER: each of the 20 serialisable structures x every subset of its optional members (<= 12 selector bits: all subsets; 16-17: empty, full, singles, pairs, complements; thorough: all 2^17) x {small, widest} values x fill levels of the encoder buffer, returned value vs. measured growth of the output",
    bound_quick="exporter histories of length <= 3; encoder: as C06 quick", bound_thorough="exporter histories of length <= 4 (+xz, gzip file); encoder: as C06 thorough",
    assumptions=[],
)
ENGINES.append(dict(name="E-HIST", path="harness/hist.cpp", serves_properties=["C01", "C02", "C10", "C12", "C13"], kind_free_text="stateless exhaustive enumeration of API histories on the real exporter in lockstep with a reference model"))

CHECKS["C07"] = dict(
    level="exploration", engine="E-GRAM",
    technique="bounded exhaustive input enumeration on the implementation: every item of a bounded RFC 8949 grammar at every offset that splits it across the decoder's window boundary",
    level_text="Every well-formed item of the bounded grammar (all major types, every head width incl. non-preferred, definite/indefinite/chunked strings, containers with 0..2 children to depth 3, tags) is decoded by the real CdnsDecoder at stream offset 0 and at every offset that makes it straddle the 65535-byte refill boundary (first and second refill); the matching read must return the generator's value and skip_item must leave the sentinel as the next item.",
    level_note="Trusted: ref/cbor.hpp generator (self-checked: decode(encode(x)) re-encodes identically). Outside the bound: nesting deeper than 3, more than 2 children, negative integers below -2^63 (skip only).",
    stages=[dict(harness="gram", variant="asan")],
    rule="items x offsets enumerated exhaustively; each (item, offset) runs peek+matching read, read_integer, skip_item and read_array on fresh decoders; every case is distinct and non-trivial (a real decode compared with ground truth); phases 1..6 repeat the first and last offset of every item right after a decoder call that failed part-way on the same thread (six kinds of truncated / malformed input), in freshly forked workers per phase",
    bound_quick="reduced head-width set (preferred + widest), child alphabet thinned 1:3; offsets: 0 and every split around 65535 and 131070",
    bound_thorough="every head width, full child alphabet, same offsets (items up to 400 bytes: every split)",
    assumptions=["string payloads follow one byte pattern per length"],
)
ENGINES.append(dict(name="E-GRAM", path="harness/gram.cpp", serves_properties=["C07"], kind_free_text="grammar-bounded exhaustive input enumeration against the real decoder"))

CHECKS["C05"] = dict(
    level="exploration", engine="E-REWRITE",
    technique="bounded exhaustive input enumeration on the implementation: every prefix length in boundary windows of exporter-produced files, flat streams at every length around window multiples, unreadable streams",
    level_text="For 9 exporter-produced files (0.6 KiB to 3 windows; three of exactly k*65535 bytes; three whose first block ends one before / on / one after a window boundary) every prefix length (small files: all; large: +-48 around every multiple of 65535, the header end, block ends and file end) is read by the real CdnsReader from a string stream and a file stream; the reader must return exactly the blocks wholly contained in the prefix, identical to those of the full file, then throw CdnsDecoderEnd. Flat streams of n one-byte items (n within +-48 of 0, 65535, 131070, 196605) must yield exactly n values for each of 7 read operations and then CdnsDecoderEnd; never-opened / directory / missing-file streams must never yield a value. For cuts next to a multiple of 65535, a block end or the end of the file, the prefix is also read in turns with a reader over the full file while a third reader over another valid file is alive on the same thread (lockstep): each of the three must return what it returns alone.",
    level_note="Trusted: block end offsets from ref/ parse. The decoder's only position-dependent state is (window exhausted?) which changes at multiples of 65535 and at end of data; all relative positions within +-48 are covered. A coarse sweep elsewhere is not part of the claim.",
    stages=[dict(harness="rewrite", variant="asan", args=["--mode", "prefix"], require=["lockstep_runs"])],
    rule="enumerated (file, prefix length, stream kind) triples + (length, operation) pairs + (unreadable stream kind, operation) pairs; non-trivial = prefix strictly inside the file, or any flat/unreadable case; all distinct",
    bound_quick="block ends: +-6 for a subset of blocks of the large files; coarse sweep step 9973", bound_thorough="+-48 around every block end; coarse sweep step 977",
    assumptions=[],
)
ENGINES.append(dict(name="E-REWRITE", path="harness/rewrite.cpp", serves_properties=["C05", "C08", "C03"], kind_free_text="seed-file based exhaustive enumeration of prefixes, re-encodings and mutations against the real reader"))

CHECKS["C03"] = dict(
    level="exploration", engine="E-REWRITE",
    technique="bounded exhaustive input enumeration on the implementation under ASan/UBSan: structure-aware single mutations of exporter-produced files, nesting bombs, all short raw byte strings, through every read-side entry point in crash-contained workers",
    level_text="Every input of the enumerated families is fed to every CdnsDecoder operation (as first call, followed by skip_item), to CdnsReader, all blocks, all read_generic_* accessors and every string() renderer, in forked workers built with AddressSanitizer+UndefinedBehaviourSanitizer and a per-case watchdog. Families: every truncation; every single-byte substitution (255 values per position); for every CBOR head: argument replaced by 13 boundary values in every head width, major type replaced by each other type, additional info 28..31; nesting bombs (arrays, maps, indefinite arrays, tags; depth 10..2*10^5) raw and as value of an unknown key in every map; all byte strings of length <= 2 and length 3 over a 64-symbol alphabet; k*65535-byte files ending inside a string.",
    level_note="Trusted: sanitizer runtimes as oracle (memory errors, UB, any single allocation > 64 MiB - inputs are at most 1 MiB, so this is the 'allocation sized by an unchecked length field' detector; length fields are substituted with 2^24, 2^27, 2^30, 2^32-1 ... - and stack overflow), watchdog 20 s per case. Two or more coordinated mutations and reads of uninitialised bytes inside live std::string storage are outside what this check observes. Command-line tools are covered by the tools stage on the distinct outcome classes.",
    stages=[dict(harness="rewrite", variant="asan", args=["--mode", "mutate"])],
    rule="enumerated single mutations per seed node/byte; an input is non-trivial when the reader got past the file header (it exercises block/record decoding); distinct by construction (each mutation generated once)",
    bound_quick="seeds small (594 B: every byte x 255 values) and rich (every 2nd byte x 64 representative values); bombs up to depth 2*10^5; length fields near 2^64/2^63/2^32", bound_thorough="adds seed mid; bombs up to 10^6; raw length-4 strings",
    assumptions=["default 8 MiB stack"],
)

CHECKS["C08"] = dict(
    level="exploration", engine="E-REWRITE",
    technique="bounded exhaustive input enumeration on the implementation: every single semantics-preserving re-encoding at every node of exporter-produced files, each first validated as equivalent by the independent reader",
    level_text="Four exporter-produced seed files containing every map and array kind of the format are parsed into encoding-preserving trees; every single rewrite at every node (definite<->indefinite per container, chunking of each string into 1/2/3/len chunks, each wider head, map reversal / rotation / every adjacent swap, insertion of an unknown positive or negative key with one of 19 values at front/middle/end of each map) and 24 whole-file rewrites are generated; the independent reader must confirm the rewritten file denotes the same data (guards the generator), then the canonical dump through CdnsReader must equal the original's.",
    level_note="Trusted: ref/ reader as equivalence guard. Compositions: every pair of local rewrites at different nodes (thorough tier, two seeds) and the whole-file variants (everything indefinite / widest / chunked / reversed / unknown member in every map with 19 values and 25 congruent keys / all at once); triples and more only through the whole-file variants.",
    stages=[dict(harness="rewrite", variant="asan", args=["--mode", "rewrite"])],
    rule="(seed, node, rewrite) triples enumerated exhaustively; every case compares two real reader runs; distinct by construction",
    bound_quick="single rewrites on seeds rich, small, alt (unknown-member values rotated: 3 per position); whole-file variants on all 4 seeds",
    bound_thorough="single rewrites on all 4 seeds with all 19 unknown-member values per position and all permutations of maps with <= 4 members; every PAIR of local rewrites (6 kinds) at two different nodes on the seeds small and alt",
    assumptions=[],
)

CHECKS["C04"] = dict(
    level="exploration", engine="E-VAL",
    technique="exhaustive configuration enumeration on the implementation: all 2^18 query-response hint masks and all 2^17 signature hint masks, rr x other masks and cross terms, output parsed by the independent reader",
    level_text="For every enumerated hint configuration a block with two fully populated query/responses sharing table values, a repeated address event and two malformed messages is exported and parsed independently: every member present must have its hint bit set, every table entry must be reachable from a stored item, AEC/MM arrays appear only when enabled, the preamble states exactly the configured masks, and the stored block equals the hint-filtered expectation of the reference model (so enabled fields are not lost either). Family relabel: every non-empty subset of {query/response, malformed message, address event} x other-data hints A x B x 3 query/response masks for B x 2 insertion orders - a block built under A is asked to take parameters B through set_block_parameters and written into a file listing A and B; the block in the file must conform to the hints stated for the index it names.",
    level_note="Trusted: hint-bit table written from RFC 8618 (response question list shares bit 11 - library choice stated in DESIGN 3); ref/ parser. The full cross product 2^18 x 2^17 is covered up to <= 1 (quick) / <= 2 (thorough) deviating bits per side; each guard in the code tests one bit and one field.",
    stages=[dict(harness="val", variant="asan", args=["--mode", "hints"], require=["relabel_files"]),
            dict(harness="hist", variant="plain", args=["--mode", "hints-edit"], prefix="edit_", require=["blocks_validated"])],
    rule="mask enumeration: [0,2^18) x {all sig}, {all qr} x [0,2^17), 16 rr/other combinations, cross terms of masks with <= k cleared or <= k set bits on each side; a configuration is non-trivial unless both masks are 0; all distinct",
    bound_quick="cross terms with <= 1 deviation per side x 4 rr/other combinations", bound_thorough="cross terms with <= 2 deviations per side x 16 rr/other combinations",
    assumptions=["ASN, country code and RTT have no hint bit and are always stored"],
)

CHECKS["C09"] = dict(
    level="exploration", engine="E-VAL",
    technique="exhaustive configuration enumeration on the implementation: file preambles written by the exporter and read back by CdnsReader and by the independent reader",
    level_text="Every enumerated FilePreamble (all 256x256 version pairs x private version {absent,0,255}; every subset of the 7 optional storage members x collection parameters {absent, present-empty, subsets}; integers on width boundaries; opcode/RR-type lists of length 0/1/3/300 with unassigned codes and duplicates; empty/ASCII/multi-byte UTF-8/300-byte texts; 1..8 parameter sets through all four construction paths) is written and compared member for member (absent != empty != default) with CdnsReader::m_file_preamble and with the independent interpretation of the bytes.",
    level_note="Trusted: ref/ reader; own comparator via canonical dumps. The two-argument FilePreamble constructor ignoring its private_version argument is outside the property (object compared as it stands before writing).",
    stages=[dict(harness="val", variant="asan", args=["--mode", "preamble"]),
            dict(harness="val", variant="asan", args=["--mode", "align"], prefix="align_"),
            dict(harness="ser", variant="asan", args=["--mode", "roundtrip", "--structs", "preamble"], prefix="serrt_")],
    rule="enumerated preamble specifications, each exported with one record and read back twice; all distinct and non-trivial; structure round trip (E-SER): StorageHints, StorageParameters, CollectionParameters, BlockParameters, FilePreamble, Timestamp x member subsets x {small, widest} values: a fresh object and an object that held the fully populated variant before read write(x) and must serialise to the same bytes",
    bound_quick="versions: major 0..255 x minor step 5 (+ all minors for major 1); storage subsets 2^7 x collection {absent, empty, full, single members, all-but-one}", bound_thorough="versions exhaustive 256x256x3; 2^7 x (2^10+1) member subsets",
    assumptions=["vector members of CollectionParameters cannot distinguish empty from absent in the API; both are treated as absent"],
)

CHECKS["C17"] = dict(
    level="model_checking", engine="E-VAL",
    technique="exhaustive grid enumeration of timestamp arithmetic against 128-bit reference arithmetic, plus explicit-state enumeration of record arrival orders through the real exporter",
    level_text="(a) all pairs over a small exhaustive grid (rates 1,2,3,7,10,1000) and over the boundary product (rates 1,1e3,1e6,1e9; seconds 0,1,2^31-1,2^31,2^32-1,2^32,max-1,max; ticks 0,1,rate-1): offset exact, add-back exact and normalised, < and <= order by instant; every offset of {INT64_MIN, INT64_MIN+1, -2^32, -rate-1, -rate, -1, 0, 1, rate-1, rate, 2^32, INT64_MAX} on every grid point: refused exactly when the result would be negative or the rate is 0, refusal leaves the timestamp unchanged; UBSan armed. (b) every arrival order of up to 4 timed/untimed QR/MM/AEC records x time-offset hint on/off x MM hint on/off through the real exporter: every record time recovered exactly by both readers (hence earliest <= every stored time). (c) at rates 1,1e3,1e6,1e9 every ordered pair over the normalised boundary instants of (a) x {query/response, malformed message} as raw items of one block through exporter -> file -> CdnsReader and the independent reader: times recovered as the same (seconds, ticks) pairs, both readers agree.",
    level_note="Trusted: unsigned __int128 reference arithmetic, ref/ reader. Results >= 2^63 ticks are outside the stated range (only UB-freedom is required there).",
    stages=[dict(harness="val", variant="asan", args=["--mode", "time"]),
            dict(harness="hist", variant="plain", args=["--mode", "times"], prefix="blocks_", require=["blocks_validated"])],
    rule="grid points enumerated exhaustively; block histories: stateless DFS over 8 record kinds, every history of length <= D x 4 configurations",
    bound_quick="block histories of length <= 4", bound_thorough="block histories of length <= 5",
    assumptions=[],
)
ENGINES.append(dict(name="E-VAL", path="harness/val.cpp", serves_properties=["C04", "C09", "C17"], kind_free_text="exhaustive value/configuration grids against reference arithmetic and the independent reader"))

CHECKS["C11"] = dict(
    level="model_checking", engine="E-BLK",
    technique="explicit-state model checking of the implementation: every add/get/find/clear sequence up to a depth on each of the nine real block tables against a vector + linear search model; growth runs; exhaustive hash/equality pairs",
    level_text="For each of the nine block tables every operation sequence up to the depth bound over {add(v) for a pool of values differing in exactly one member (absent vs present-0 vs present-1), get(0), get(1), get(size), find(v0), find(v1), clear} runs on a real CdnsBlock; returned indices, retrieved values, sizes and find results must equal the model's after every step, and all stored entries must still be retrievable at the end. Growth: N distinct values then each re-added per table (deque chunk boundaries, rehash). Hash/equality: all pairs of a 600-value signature pool and the RR / malformed-message-data pools: equal => equal hash, unequal whenever a member differs. Through the exporter (E-HIST, every history of C01/C02/C12): no block of any output contains two equal table entries or an entry unreachable from its items.",
    level_note="Trusted: model = std::vector + linear search on canonical strings. Pools are small by design (collisions are forced); table contents larger than 200000 entries are outside the bound.",
    stages=[dict(harness="blk", variant="asan", args=["--mode", "tables"]),
            dict(harness="hist", variant="plain", args=["--mode", "roundtrip"], prefix="exporter_")],
    rule="stateless DFS per table over (pool size + 6) operations, every sequence of length 2..D; all distinct and non-trivial",
    bound_quick="depth 5; growth N = 70000 (beyond 16-bit indices)", bound_thorough="depth 6; growth N = 200000",
    assumptions=[],
)

CHECKS["C19"] = dict(
    level="model_checking", engine="E-BLK",
    technique="explicit-state model checking of the implementation under AddressSanitizer: every (content, way of copying, fate of the source, follow-up operation sequence) combination, differential against a freshly built block",
    level_text="Contents {empty, one full QR, QR+AEC+MM with RR lists, 300 distinct values per table, tables holding duplicates, table entries without any record, statistics only} x ways {copy ctor, move ctor, copy assign, move assign, the four CdnsBlockRead variants, block = reader.read_block(); copies whose source is kept are also assigned to themselves} x fate of the source {kept, values added, cleared, cleared and refilled with different values, destroyed} x every sequence of follow-up operations up to the depth bound from {re-add an existing value (9 tables), add new values, get, generic add sharing values, repeated address event, serialise, read_generic_*}: every observation (indices, sizes, serialised bytes, generic records) must equal that of the same operations on a freshly built block, the source must not be affected by operations on the copy, and AddressSanitizer must stay silent (forked workers attribute a use-after-free to the exact case).",
    level_note="Trusted: differential oracle (fresh block built / read the same way), ASan. Quarantine 32 MiB keeps freed source blocks poisoned while the copy is exercised.",
    stages=[dict(harness="blk", variant="asan", args=["--mode", "copy"])],
    rule="product enumerated exhaustively; follow-up sequences by stateless DFS; all distinct and non-trivial",
    bound_quick="follow-up sequences of length <= 2 over 15 operations", bound_thorough="length <= 3 (content with 300 values: <= 2)",
    assumptions=[],
)
ENGINES.append(dict(name="E-BLK", path="harness/blk.cpp", serves_properties=["C11", "C19", "C02", "C10"], kind_free_text="exhaustive operation-sequence enumeration on real CdnsBlock / CdnsBlockRead objects"))

CHECKS["C14"] = dict(
    level="model_checking", engine="E-COMP",
    technique="explicit-state enumeration on the implementation: every call sequence over {write(size, content class), rotate} up to a length on the real gzip/xz writers, outputs decompressed by zlib/liblzma decoders (and Python's gzip/lzma in the thorough tier) and compared with the bytes written",
    level_text="All sequences up to the bound over writes of sizes {0,1,2,2047,2048,2049,65536,1 MiB} x content classes {zeros, text-like, incompressible, gzip-looking} and rotations, for GZIP and XZ, to named files and descriptors, plus single writes of 5..48 MiB (8 MiB in the quick tier) alone and after a rotation: every output file must carry the .gz/.xz suffix (named), have no .part left, be exactly one complete stream (decoder reaches stream end with no input left) and decompress to exactly the bytes written since the previous rotation. Runs on an uninstrumented build with the default 8 MiB stack in forked workers, so a crash of the writer is attributed to its sequence.",
    level_note="Trusted: zlib inflate / liblzma stream decoder as decompressors (Python's gzip and lzma modules wrap the same C libraries; they are run on a sample in the thorough tier as a cross-check of the harness' own decoder loop). The end-to-end path through the exporter: 25000 / 60000-record exports (3 content kinds) compared with the uncompressed export of the same records, plus C13's gzip/xz profiles. The harness defines deflate and lzma_code itself as passive observers (the real functions are called unchanged) that classify every codec pass; the stage is rejected as vacuous unless passes that consumed only part of a chunk and finishes that needed several passes were reached.",
    stages=[dict(harness="comp", variant="plain", require=["gz_partial_input_passes", "gz_finish_multipass", "xz_finish_multipass", "export_runs", "short_writes"]),
            dict(harness="comp", variant="asan", args=["--mode", "static-exit"], prefix="asan_", require=["static_exit_runs"], max_alloc_mb=512),   # destruction at exit() under ASan: use of an already destroyed function-local static is reported
            dict(kind="py", harness="decomp", tiers=("thorough",), prefix="py_")],
    rule="stateless DFS over the (size, class) / rotate-to-new-name / rotate-onto-open-name alphabet for 2 formats x 2 sink kinds; chunking sweep: 600 KiB (thorough: 4 MiB for gzip) written in chunks of one size, for text-like / incompressible / mixed-entropy data; end-to-end exports; a writer of static storage duration destroyed by exit() in a forked child (also under AddressSanitizer); environment deviation 'short write' (every write(2) transfers at most 1 / 7 / 1000 / 4096 / 65536 bytes) on two sequences per format and sink; non-trivial = at least one step; all distinct",
    bound_quick="sequences of length <= 2 (29 steps alphabet) + 8 MiB single writes", bound_thorough="length <= 3 + single writes of 5, 6, 8, 16, 48 MiB",
    assumptions=["default RLIMIT_STACK (8 MiB)"],
)
ENGINES.append(dict(name="E-COMP", path="harness/comp.cpp", serves_properties=["C14"], kind_free_text="exhaustive write/rotate sequence enumeration on the real compressing writers"))

CHECKS["C15"] = dict(
    level="fault_enumeration", engine="E-FAULT",
    technique="exhaustive crash-point enumeration on the implementation: the process is killed immediately before every output-related system call (write, writev, rename) of each scenario, with the calls interposed in the harness executable",
    level_text="42 scenarios ({plain, gzip, xz} x {an output that ends exactly at the end of the staging buffer when it is rotated; final paths of exactly 255 and 252 characters; first name a symbolic link to /dev/null, then a rotation to an ordinary name; single output closed by destruction; three rotations with and without export; rotation onto a name that already holds an older complete file; rotation back onto the first name; destruction with buffered but unwritten data; destruction with nothing written; high-entropy records (the compressor holds several KB at close, finishing takes several passes); stale '.part' files left by a dead run}), records of 3 KB so that blocks span several encoder flushes and the ofstream buffer spills mid-block. A trace run records the K output calls; for every k in 1..K a forked child runs the scenario and _exits immediately before its k-th call; afterwards every directory entry not ending in .part must be byte-identical to one of the complete versions that name legitimately holds (the pre-existing file or a closed output of the uninterrupted run, each validated as a complete stream and valid C-DNS file). The trace run also checks that every data write targets a *.part path.",
    level_note="Crash model = process death between system calls (the property's model); no power loss / page cache reasoning. Trusted: path of a descriptor read from /proc/self/fd at call time; write/writev/rename are the only output calls libstdc++ and the library issue (verified by the trace containing all bytes).",
    stages=[dict(harness="fault", variant="plain", args=["--mode", "crash"], link=["-rdynamic"], require=["gz_finish_multipass", "xz_finish_multipass"]),
            dict(harness="val", variant="asan", args=["--mode", "align", "--named", "1"], prefix="named_"),
            dict(harness="comp", variant="plain", args=["--mode", "export-wellformed"], prefix="bigz_", require=["export_runs", "export_records_validated"])],   # outputs large enough for the codecs to emit while data still arrives: what carries the final name must be a complete valid document
    rule="large compressed outputs (no crash): end-to-end exports of 3000 / 25000 (/ 60000) records x {gzip, xz} x {name, descriptor}, the finished file is decompressed and validated; named-output alignment sweep (no crash, the k = K+1 case of every size): a padding string of every length 0..2100 (thorough 0..4199) x {plain, gzip} moves the end of a rotated and of a destroyed output across every position of the encoder's 2 KiB staging buffer; what is visible under the final names must be complete valid files (closing break included), nothing else may be left in the directory. (scenario, k) pairs enumerated exhaustively; a run is non-trivial when the child really stopped at call k (exit code 77), otherwise it is reported as a harness error",
    bound_quick="all 42 scenarios, every k", bound_thorough="same (the space is small and fully covered in the quick tier)",
    assumptions=["tmpfs scratch directory"],
)

CHECKS["C16"] = dict(
    level="fault_enumeration", engine="E-FAULT",
    technique="exhaustive fault-point enumeration on the implementation: every write/writev of each scenario fails with ENOSPC / EIO or is cut short, once or persistently, with the documented recovery protocol as driver",
    level_text="60 scenarios (the C15 ones for named outputs plus descriptor outputs). For every write call k of the trace x {ENOSPC, EIO, short count} x {only call k, every later call to the same output}: a forked child runs the history reacting as documented (on the first exception: rotate_output(healthy, false), write_block(), destroy; otherwise rotate_output(healthy, true)). Clause 1: every output closed by a rotate_output that returned normally after the same history as the fault-free run must hold exactly the fault-free bytes. Clause 2: after an exception from a block write the buffered item count is unchanged, the rotate_output to the healthy destination returns normally and the recovery output is a complete valid file holding exactly the records of the failed block.",
    level_note="A write that reports 0 bytes is injected for descriptor outputs only (fault kind 4, persistent, 5 s watchdog: a hang is a violation); for named outputs libstdc++ itself retries for ever, which says nothing about c-dns. Failures of rename/open/close are outside the enumerated faults. Known findings D12a-c are listed in known_findings.json by (clause, sink kind, compression, whether the faulted output is the one closed).",
    stages=[dict(harness="fault", variant="plain", args=["--mode", "fault"], link=["-rdynamic"])],
    rule="(scenario, k, fault kind, persistence) tuples enumerated exhaustively; non-trivial = the injected point was reached; unreachable points are harness errors",
    bound_quick="all 60 scenarios, every write call, 3 fault kinds x 2 persistence modes (+ zero-byte writes and a single EINTR on the 15 descriptor scenarios)", bound_thorough="same",
    assumptions=["C16 clause 1 is read as 'no silent loss': an exception no later than the rotate_output that closes the output (DESIGN 8.2)"],
)
ENGINES.append(dict(name="E-FAULT", path="harness/fault.cpp", serves_properties=["C15", "C16"], kind_free_text="exhaustive crash-point / write-fault enumeration with interposed write, writev, rename"))

_TOOLS = ["cdns-merge", "cdns-itemcount", "cdns-blocks", "cdns-items", "cdns-preamble"]
CHECKS["C18"] = dict(
    level="exploration", engine="E-CLI",
    technique="exhaustive enumeration of argument tuples on the real tool binaries: every tuple of 1..3 inputs over a pool of 17 files through cdns-merge, cdns-itemcount with every option combination, compared with the independent reader",
    level_text="Pool: A (1 parameter set, 10^6 ticks, 3 blocks), B (2 sets, 10^3 ticks, reduced hints, collection parameters, 4 blocks alternating sets), C (10^9 ticks, all QR hints off, statistics), D (minor version differs), E (private version differs), G (300 non-C-DNS bytes), H (B cut inside its 2nd block), I (valid, zero blocks), J (10^9 ticks, blocks without block-parameters-index), K (A with two empty blocks), L (no private version), M / N (an address-event key listed twice, other / same count), O (B with a repeated address-table entry), P (A with an empty block first), Q (B with every string stored in chunks), Z (missing path). All 17+289+4913 tuples (+ one tuple of 142 inputs whose 280 distinct parameter sets push the merged file's block-parameters indices beyond 8 bits) are merged by the real cdns-merge (ASan/UBSan build); expected blocks = non-empty blocks of every input that is C-DNS and version-equal to the first readable one, up to its first error, in order; the output must validate, hold exactly those blocks with records, statistics, earliest time and absolute times unchanged, and each block's parameter set in the output preamble must equal the one it had in its source; with no contributing block the output must be empty. cdns-itemcount (-b, -p, both, none) on every valid input and merged output must print the counts of the independent parse.",
    level_note="Trusted: ref/ reader for inputs and outputs; integers are extracted from the tools' stdout without relying on the free-text layout. The other inspection tools are covered for safety by C03's tools stage.",
    stages=[dict(harness="cli", variant="asan", args=["--mode", "merge"], tools=["cdns-merge", "cdns-itemcount"])],
    rule="tuples enumerated exhaustively (order matters, repetition allowed); every tuple is a distinct real tool run; non-trivial: all",
    bound_quick="tuples of length <= 3; itemcount on merged outputs of tuples of length <= 2", bound_thorough="itemcount on every merged output",
    assumptions=["a zero-byte output is accepted exactly when no input contributes a block (C02's convention)"],
)
ENGINES.append(dict(name="E-CLI", path="harness/cli.cpp", serves_properties=["C18", "C03"], kind_free_text="exhaustive argument-tuple enumeration on the real CLI binaries"))
CHECKS["C03"]["stages"].append(dict(harness="cli", variant="asan", args=["--mode", "tools"], tools=_TOOLS, prefix="tools_"))
CHECKS["C03"]["stages"].append(dict(harness="rewrite", variant="asan", args=["--mode", "render"], prefix="render_"))
CHECKS["C03"]["stages"].append(dict(kind="py", harness="valgrind_render", prefix="valgrind_", replayable=False))

CHECKS["C20"] = dict(
    level="model_checking", engine="E-SCHED",
    technique="stateless model checking of the implementation under a cooperative scheduler: every schedule of 2-3 worker bodies with a bounded number of preemptions at interposed library/system calls, plus every single preemption at function-boundary granularity; ThreadSanitizer free-running pass as side condition",
    level_text="Seven worker bodies (export plain/gzip/xz to a descriptor and read back; export plain/gzip to named files with two rotations; read a prepared file and render every item; build, copy and serialise blocks) run as real threads of which exactly one is runnable. Level 1: scheduling points = write, writev, read, rename, close, fstat, inet_ntop, deflate, lzma_code (interposed in the executable; calls that fill a caller-owned buffer - read, fstat, inet_ntop, deflate, lzma_code - have a second point right after they return); all schedules with <= P preemptions of all 28 unordered body pairs (and body triples in the thorough tier) are enumerated by DFS over choice prefixes; every thread's digest (output bytes, decoded dump, rendered text) must equal its sequential digest; ASan build. Level 2: library compiled with -finstrument-functions, every function entry/exit is a scheduling point; for every ordered pair (A,B) and every point i of A: A runs to i, B runs to completion, A resumes. Instance isolation (level-1 stage): 81 ordered pairs (X, Y) of nine workloads - the seven above, a read of a file whose maps carry unknown members, and a read of that file cut inside an unknown member - run one after the other on ONE fresh thread; Y must give the digest it gives on a thread that did nothing before (per-thread state is shared between independent instances too). Side condition: the same bodies free-running on 2,4,8,16 threads under ThreadSanitizer with yields injected at the level-1 points; each run is a freshly forked process in which no library code ran before the threads start (the parent never calls the library, the sequential reference is computed after the threads), so lazily initialised state is cold; extra rounds in which every thread runs the same body.",
    level_note="Trusted: the scheduler serialises threads, so unsynchronised accesses between two scheduling points are invisible to it - this atomicity assumption is closed by the ThreadSanitizer pass (a different, sampling technique used only as side condition). Replay of a choice prefix that meets a smaller enabled set is a hard harness error. More than one preemption is explored only at level 1; more than 3 threads only free-running. Within one worker process of levels 1 and 2 only the first schedule starts from cold library state; first-use races of lazily built state are therefore left to the free-running pass.",
    stages=[dict(harness="sched", variant="asan", args=["--level", "1"], link=["-rdynamic"], share=0.55, max_alloc_mb=512),   # the xz encoder (preset 6) allocates ~70 MiB in one piece
            dict(harness="sched", variant="instr", harness_variant="plain", args=["--level", "2"], link=["-rdynamic"], prefix="l2_", share=0.85),
            dict(harness="sched", variant="tsan", flags=["-DTSAN_PASS"], link=["-rdynamic"], prefix="tsan_", replayable=False)],
    rule="level 1: DFS over choice prefixes, every schedule within the preemption bound; level 2: (ordered pair, preemption point) enumerated; a schedule is non-trivial if it differs from the default (no preemption) schedule; all distinct",
    bound_quick="level 1: pairs, <= 2 preemptions; level 2: every 7th function-boundary point; TSan: 23 runs; isolation: 81 pairs", bound_thorough="level 1: all pairs <= 2 preemptions, a body with itself <= 3 (not xz), all 35 triples of the 5 bodies plain-fd/gzip-fd/named-plain/named-gzip/render <= 2; level 2: every point; TSan: 62 runs; isolation: 81 pairs",
    assumptions=["bodies use 8-9 records of about 1 KiB in blocks of 2-3 so that every sink sees several flushes"],
    deadline_thorough=2400,
)
ENGINES.append(dict(name="E-SCHED", path="harness/sched.cpp", serves_properties=["C20"], kind_free_text="preemption-bounded cooperative scheduler over interposed calls and -finstrument-functions hooks; TSan side pass"))
