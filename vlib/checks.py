"""Per-property configuration: harness stages, evidence level, enumeration rule, assumptions."""

CHECKS = {}
NOT_APPLICABLE = {}
ENGINES = [
    dict(name="E-ENC", path="harness/enc.cpp", serves_properties=["C06"], kind_free_text="explicit-state exploration of the real encoder (state = staging buffer fill level)"),
]

CHECKS["C06"] = dict(
    level="model_checking", engine="E-ENC",
    technique="explicit-state model checking of the implementation: exhaustive enumeration of (buffer fill level x operation sequence) on the real encoder against a reference encoder",
    level_text="Every reachable encoder state (fill level 0..2048) is visited and every operation/argument class is fired from it on the real code; outputs are compared with an independent RFC 8949 encoder. Right level: the only position-dependent state of the encoder is the fill level, so the state space is finite and fully enumerable.",
    level_note="Trusted: ref/cbor.hpp preferred encoder; g++/ASan/UBSan runtime; string payloads use one byte pattern per length (payload bytes are copied, never inspected).",
    stages=[dict(harness="enc", variant="asan")],
    rule="explicit-state exploration of the real CdnsEncoder: state = fill level of the 2 KiB staging buffer (every level 0..2048 "
         "reached by a filler and read back through the private pointer), transitions = the 18 public write operations x argument "
         "classes (width boundaries, full 2^8/2^16 ranges, string lengths 0..3x2048), plus all pairs/triples near the buffer end and "
         "a reduced pass through descriptor / named-file / gzip sinks; oracle = bytes in the sink == concatenation of the independent "
         "reference's preferred encodings and each return value == that encoding's length. A trace is non-trivial/distinct by "
         "construction: each (fill level, operation sequence, sink) is generated once.",
    bound_quick="singles: every fill level 0..2048 x ~190 (op,arg); pairs f in 2040..2048; triples f in 2045..2048; 2^8/2^16 at f in {0,2047}; string lengths 0..6144 at f in {0,2046..2048}; other sinks f in {0,2040..2048}",
    bound_thorough="singles: every fill level; pairs f in 2030..2048; triples f in 2040..2048; 2^8/2^16 at f in {0,2044..2048}; string lengths 0..6144 at every f = 0 mod 64 and f >= 2040; other sinks",
    assumptions=["string payloads are a position-dependent byte pattern, not all 256^n contents (the encoder copies payload bytes without looking at them)",
                 "reference encoder ref/cbor.hpp (RFC 8949 preferred serialisation) is the trusted oracle"],
)
