"""Build cache: compiles the library straight from the repository's *current working tree* and the
harness executables against it. Keyed by a hash of the sources, so an edit can never reuse a stale
object. No cmake involved; flags mirror CMakeLists (-std=c++14 -msse4)."""
import os, sys, hashlib, subprocess, fcntl, shutil, glob, time
from concurrent.futures import ThreadPoolExecutor

VERIF = os.path.dirname(os.path.dirname(os.path.abspath(__file__)))
REPO = os.environ.get("VERIF_REPO", "/repo")
BUILD = os.path.join(VERIF, "build")
GUARD = "CDNS_VERIF"

VARIANTS = {
    "asan": ["-O1", "-g1", "-fsanitize=address,undefined", "-fno-sanitize=alignment", "-fno-sanitize-recover=undefined",
             "-fno-omit-frame-pointer"],
    "plain": ["-O2"],
    "tsan": ["-O1", "-g1", "-fsanitize=thread"],
    "instr": ["-O1", "-finstrument-functions",
              "-finstrument-functions-exclude-file-list=/usr/include,/usr/lib"],
}
COMMON = ["-msse4", "-D" + GUARD, "-w"]


def _sha(paths, extra=""):
    h = hashlib.sha256(extra.encode())
    for p in sorted(paths):
        h.update(p.encode()); h.update(b"\0")
        with open(p, "rb") as f:
            h.update(f.read())
        h.update(b"\0")
    return h.hexdigest()


def repo_sources():
    src = os.path.join(REPO, "src")
    out = []
    for root, _, files in os.walk(src):
        for f in files:
            if f.endswith((".h", ".cpp", ".hpp")):
                out.append(os.path.join(root, f))
    return out


_repo_hash = None


def repo_hash():
    global _repo_hash
    if _repo_hash is None:
        _repo_hash = _sha(repo_sources(), REPO)[:16]
    return _repo_hash


def _run(cmd, what):
    r = subprocess.run(cmd, stdout=subprocess.PIPE, stderr=subprocess.STDOUT, text=True)
    if r.returncode != 0:
        sys.stderr.write("BUILD FAILED (%s): %s\n%s\n" % (what, " ".join(cmd), r.stdout[-6000:]))
        raise SystemExit(2)
    return r.stdout


class _Lock:
    def __init__(self, name):
        os.makedirs(BUILD, exist_ok=True)
        self.path = os.path.join(BUILD, ".lock-" + name)

    def __enter__(self):
        self.f = open(self.path, "w")
        fcntl.flock(self.f, fcntl.LOCK_EX)

    def __exit__(self, *a):
        fcntl.flock(self.f, fcntl.LOCK_UN)
        self.f.close()


def _prune():
    """keep the two most recently used source hashes, and anything touched within the last hour (a concurrent
    run against another tree may be building there right now)"""
    try:
        import time
        dirs = [d for d in glob.glob(os.path.join(BUILD, "*")) if os.path.isdir(d)]
        dirs.sort(key=lambda d: os.path.getmtime(d), reverse=True)
        for d in dirs[2:]:
            if time.time() - os.path.getmtime(d) > 3600:
                shutil.rmtree(d, ignore_errors=True)
    except Exception:
        pass


def lib(variant):
    """returns path to libcdns.a of the variant, building it if needed"""
    h = repo_hash()
    d = os.path.join(BUILD, h, variant)
    a = os.path.join(d, "libcdns.a")
    if os.path.exists(a):
        os.utime(os.path.join(BUILD, h))
        return a
    with _Lock(h + "-" + variant):
        if os.path.exists(a):
            return a
        os.makedirs(d, exist_ok=True)
        _prune()
        srcs = sorted(glob.glob(os.path.join(REPO, "src", "*.cpp")))
        flags = ["-std=c++14"] + COMMON + VARIANTS[variant] + ["-I", os.path.join(REPO, "src"), "-I", REPO]
        objs = []

        def cc(s):
            o = os.path.join(d, os.path.basename(s)[:-4] + ".o")
            _run(["g++"] + flags + ["-c", s, "-o", o], "lib " + variant)
            return o
        with ThreadPoolExecutor(max_workers=16) as ex:
            objs = list(ex.map(cc, srcs))
        tmp = a + ".tmp"
        if os.path.exists(tmp):
            os.unlink(tmp)
        _run(["ar", "rcs", tmp] + objs, "ar")
        os.rename(tmp, a)
    return a


def harness(name, variant, extra_flags=(), extra_srcs=(), link=(), harness_variant=None):
    """compile harness/<name>.cpp against the variant's library; returns exe path"""
    a = lib(variant)
    hdir = os.path.join(VERIF, "harness")
    deps = glob.glob(os.path.join(hdir, "*.hpp")) + glob.glob(os.path.join(VERIF, "ref", "*.hpp"))
    srcs = [os.path.join(hdir, name + ".cpp")] + [os.path.join(hdir, s) for s in extra_srcs]
    hv = harness_variant or variant
    hh = _sha(deps + srcs, " ".join(extra_flags) + variant + hv + " ".join(link))[:12]
    d = os.path.dirname(a)
    exe = os.path.join(d, "h_%s_%s" % (name, hh))
    if os.path.exists(exe):
        return exe
    with _Lock(repo_hash() + "-" + variant + "-" + name):
        if os.path.exists(exe):
            return exe
        for old in glob.glob(os.path.join(d, "h_%s_*" % name)):
            try:
                os.unlink(old)
            except OSError:
                pass
        flags = ["-std=gnu++17", "-fno-access-control"] + COMMON + VARIANTS[hv] + list(extra_flags) + \
                ["-I", os.path.join(REPO, "src"), "-I", REPO, "-I", VERIF]
        tmp = exe + ".tmp%d" % os.getpid()
        _run(["g++"] + flags + srcs + [a, "-lz", "-llzma", "-lpthread", "-ldl"] + list(link) + ["-o", tmp], "harness " + name)
        os.rename(tmp, exe)
    return exe


def tool(name, variant):
    """compile src/bin/<name>.cpp (a CLI tool) against the variant's library"""
    a = lib(variant)
    d = os.path.dirname(a)
    exe = os.path.join(d, "tool_" + name)
    if os.path.exists(exe):
        return exe
    with _Lock(repo_hash() + "-" + variant + "-tool-" + name):
        if os.path.exists(exe):
            return exe
        flags = ["-std=c++14"] + COMMON + VARIANTS[variant] + ["-I", os.path.join(REPO, "src"), "-I", REPO]
        tmp = exe + ".tmp%d" % os.getpid()
        _run(["g++"] + flags + [os.path.join(REPO, "src", "bin", name + ".cpp"), a, "-lz", "-llzma", "-o", tmp], "tool " + name)
        os.rename(tmp, exe)
    return exe


def build_many(jobs):
    """jobs: list of callables; run in parallel, propagate failure"""
    with ThreadPoolExecutor(max_workers=8) as ex:
        futs = [ex.submit(j) for j in jobs]
        return [f.result() for f in futs]
